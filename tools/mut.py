#!/usr/bin/env python3
"""Dev helper: run a check against a scratch copy of /repo/src with one textual edit applied.
usage: mut.py <PROP> <relpath under src/primaite> <old> <new> [extra check args]"""
import os, shutil, subprocess, sys, tempfile
prop, rel, old, new = sys.argv[1:5]
d = tempfile.mkdtemp(prefix="pyvc_mut_")
try:
    shutil.copytree("/repo/src", d + "/src")
    p = f"{d}/src/primaite/{rel}"
    s = open(p).read()
    if s.count(old) != 1:
        print(f"edit site matches {s.count(old)} times"); sys.exit(9)
    open(p, "w").write(s.replace(old, new))
    env = dict(os.environ, PYVC_REPO=d, PYVC_EVIDENCE_DIR=d + "/evidence")
    r = subprocess.run(["/verif/check", prop] + sys.argv[5:], env=env)
    print("exit", r.returncode)
finally:
    shutil.rmtree(d)
