#!/bin/sh
# usage: seedcopy.sh <PROP> <patch.diff> [extra check args]
# Runs a check against a scratch copy of /repo/src with a seeded change applied (same result as applying the patch to
# /repo transiently, but several can run side by side and /repo is never touched).
prop=$1; patch=$2; shift 2
d=$(mktemp -d /tmp/pyvc_seed_XXXXXX)
cp -r /repo/src "$d/src"
(cd "$d" && patch -s -p1 < "$patch") || { echo "patch does not apply"; rm -rf "$d"; exit 9; }
PYVC_REPO="$d" PYVC_EVIDENCE_DIR="$d/evidence" /verif/check "$prop" "$@" 2>&1 | grep -v conda | grep -v KNOWN-FINDING | tail -4
rm -rf "$d"
