#!/usr/bin/env python3
"""Prints, from the evidence files of the last runs, the per-property tables that DESIGN.md section 3 quotes:
functions under contract (proved), bounded stand-ins, assumed contracts actually applied, scans/writer frames."""
import glob
import json
import os
import sys

ROOT = os.path.dirname(os.path.dirname(os.path.abspath(__file__)))
for f in sorted(glob.glob(os.path.join(ROOT, "evidence", "*.json"))):
    d = json.load(open(f))
    c = d["coverage"]
    print(f"### {d['property_id']}  ({c['obligations']} obligations, {c['discharged']} discharged, {d['wall_s']} s, solver {c['solver_secs']} s, back ends {c['back_ends']})")
    fu = c["functions_under_contract"]
    print("proved:  " + "; ".join(f"{x['function']} [{x['paths']}p/{x['obligations']}o]" for x in fu))
    if c["bounded"]:
        print("bounded: " + "; ".join(f"{b['function']} (bound {b['bound']}, {b['held']}/{b['checked']} held)" for b in c["bounded"]))
    if c.get("assumed_contracts"):
        print("assumed: " + "; ".join(a["contract"].split("::")[1] for a in c["assumed_contracts"]))
    if c.get("dispatch_contracts_applied"):
        print("dispatch: " + "; ".join(x.split(":")[0].replace("dynamic dispatch on ", "").replace("call of ", "") for x in c["dispatch_contracts_applied"]))
    if c["known_findings"]:
        print("known findings: %d lines" % len(c["known_findings"]))
    print()
