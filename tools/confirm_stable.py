#!/usr/bin/env python3
"""confirm_stable.py <seed dir>... : apply the seed's patch in a scratch worktree and run the pinned baseline there;
prints which of the 526 stable tests stop passing (none expected for a valid seed)."""
import json, os, subprocess, sys, tempfile, xml.etree.ElementTree as ET
import os as _os
WT = _os.environ.get("CONFIRM_WT", "/tmp/wt_confirm")
if not os.path.isdir(WT):
    subprocess.run(["git", "-C", "/repo", "worktree", "add", "-q", "--detach", WT, "HEAD"], check=True)
b = json.load(open("/root/.vp/BASELINE.json"))
for d in sys.argv[1:]:
    subprocess.run(["git", "-C", WT, "checkout", "-q", "--", "."])
    r = subprocess.run(["git", "-C", WT, "apply", os.path.join(d, "patch.diff")])
    if r.returncode:
        print(d, "PATCH DOES NOT APPLY"); continue
    out = tempfile.mktemp(suffix=".xml")
    cmd = b["cmd"].replace("cd /repo", f"cd {WT}").replace("<file>", out)
    env = dict(os.environ, PYTHONPATH=f"{WT}/src")
    subprocess.run(cmd, shell=True, capture_output=True, text=True, env=env)
    passed = set()
    for tc in ET.parse(out).getroot().iter("testcase"):
        if not any(ch.tag in ("failure", "error", "skipped") for ch in tc):
            passed.add(f"{tc.get('classname')}::{tc.get('name')}")
    os.unlink(out)
    missing = [t for t in b["stable_pass"] if t not in passed]
    print(d, "stable tests no longer passing:", len(missing), missing[:4])
    subprocess.run(["git", "-C", WT, "checkout", "-q", "--", "."])
