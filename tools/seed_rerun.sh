#!/bin/sh
# usage: seed_rerun.sh <seed id>...   -- re-runs the given seeds against the quick check of their property and replaces their lines in
# seeded/MATRIX.txt (same verdict rules as seed_matrix.sh)
out=/verif/seeded/MATRIX.txt
for id in "$@"; do
  prop=${id%%_*}
  res=$(/verif/tools/seedcopy.sh "$prop" "/verif/seeded/$id/patch.diff" 2>&1)
  verdict=MISSED
  echo "$res" | grep -q "^VIOLATION" && verdict=DETECTED
  if [ "$verdict" = MISSED ]; then
    echo "$res" | grep -q "UNDECIDED" && verdict="MISSED (undecided)"
    echo "$res" | grep -q "CHECKER-ERROR" && verdict="MISSED (checker error)"
    echo "$res" | grep -q "patch does not apply" && verdict="PATCH-DOES-NOT-APPLY"
  fi
  ob=$(echo "$res" | grep "^VIOLATION" | sed "s/.*replays\/[A-Z0-9]*\///; s/\.json.*//" | head -1)
  inp=""
  if [ "$verdict" = DETECTED ]; then echo "$res" | grep "^VIOLATION" | grep -q "no-failing-input-found" && inp="no input" || inp="replayed input"; fi
  grep -v "^$id |" "$out" > "$out.tmp"; echo "$id | $verdict | $ob | $inp" >> "$out.tmp"; sort "$out.tmp" > "$out"; rm -f "$out.tmp"
  echo "$id | $verdict | $ob | $inp"
done
