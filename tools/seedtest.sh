#!/bin/sh
# usage: seedtest.sh <PROP> <patch.diff> [extra check args]   -- applies a seeded change to /repo, runs the check, undoes it
prop=$1; patch=$2; shift 2
cd /repo || exit 9
git diff --quiet || { echo "repo not clean"; exit 9; }
git apply "$patch" || { echo "patch does not apply"; exit 9; }
PYVC_EVIDENCE_DIR=/verif/scratch/evidence_seed /verif/check "$prop" "$@" | tail -4
rc=$?
git checkout -- .
echo "seedtest exit (of tail) ignored; see VIOLATION line above"
