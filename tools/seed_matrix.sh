#!/bin/sh
# usage: seed_matrix.sh [out file]  -- runs every seeded change against the quick check of its property (scratch copy of /repo/src)
out=${1:-/verif/scratch/seed_matrix.txt}
: > "$out"
for d in /verif/seeded/*/; do
  id=$(basename "$d"); prop=${id%%_*}
  res=$(/verif/tools/seedcopy.sh "$prop" "$d/patch.diff" 2>&1)
  verdict=MISSED
  echo "$res" | grep -q "^VIOLATION" && verdict=DETECTED
  if [ "$verdict" = MISSED ]; then
    echo "$res" | grep -q "UNDECIDED" && verdict="MISSED (undecided)"
    echo "$res" | grep -q "CHECKER-ERROR" && verdict="MISSED (checker error)"
    echo "$res" | grep -q "patch does not apply" && verdict="PATCH-DOES-NOT-APPLY"
  fi
  ob=$(echo "$res" | grep "^VIOLATION" | sed 's/.*replays\/[A-Z0-9]*\///; s/\.json.*//' | head -1)
  echo "$id | $verdict | $ob" >> "$out"
done
cat "$out"
