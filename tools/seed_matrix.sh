#!/bin/sh
# usage: seed_matrix.sh [out file] [parallel jobs]  -- runs every seeded change against the quick check of its property
# (on scratch copies of /repo/src, so several can run side by side)
out=${1:-/verif/seeded/MATRIX.txt}; jobs=${2:-3}
tmp=$(mktemp -d /tmp/seedmx_XXXXXX)
ls -d /verif/seeded/*/ | xargs -P "$jobs" -I{} sh -c '
  d={}; id=$(basename "$d"); prop=${id%%_*}
  res=$(/verif/tools/seedcopy.sh "$prop" "$d/patch.diff" 2>&1)
  verdict=MISSED
  echo "$res" | grep -q "^VIOLATION" && verdict=DETECTED
  if [ "$verdict" = MISSED ]; then
    echo "$res" | grep -q "UNDECIDED" && verdict="MISSED (undecided)"
    echo "$res" | grep -q "CHECKER-ERROR" && verdict="MISSED (checker error)"
    echo "$res" | grep -q "patch does not apply" && verdict="PATCH-DOES-NOT-APPLY"
  fi
  ob=$(echo "$res" | grep "^VIOLATION" | sed "s/.*replays\/[A-Z0-9]*\///; s/\.json.*//" | head -1)
  inp=""
  if [ "$verdict" = DETECTED ]; then echo "$res" | grep "^VIOLATION" | grep -q "no-failing-input-found" && inp="no input" || inp="replayed input"; fi
  echo "$id | $verdict | $ob | $inp" > '"$tmp"'/$id.txt'
cat "$tmp"/*.txt | sort > "$out"
rm -rf "$tmp"
cat "$out"
