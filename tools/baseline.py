#!/usr/bin/env python3
"""Run the repository's pinned baseline (BASELINE.json cmd) and report which stable-pass tests no longer pass."""
import json, subprocess, sys, tempfile, os, xml.etree.ElementTree as ET
b = json.load(open("/root/.vp/BASELINE.json"))
out = tempfile.mktemp(suffix=".xml")
cmd = b["cmd"].replace("<file>", out)
env = dict(os.environ); env.pop("PRIMAITE_VERIF", None)
p = subprocess.run(cmd, shell=True, capture_output=True, text=True, env=env)
passed = set()
for tc in ET.parse(out).getroot().iter("testcase"):
    if not any(ch.tag in ("failure", "error", "skipped") for ch in tc):
        passed.add(f"{tc.get('classname')}::{tc.get('name')}")
os.unlink(out)
missing = [t for t in b["stable_pass"] if t not in passed]
print(f"baseline: {len(b['stable_pass']) - len(missing)}/{len(b['stable_pass'])} stable tests pass; {len(passed)} passed in total")
for m in missing[:40]:
    print("  NO LONGER PASSING:", m)
sys.exit(1 if missing else 0)
