#!/bin/sh
# usage: confirm_seed.sh <seed dir>...   -- independent confirmation of a seeded change in a scratch worktree
WT=/tmp/wt_confirm
[ -d $WT ] || git -C /repo worktree add -q --detach $WT HEAD
run_tests() { (cd $WT && PYTHONPATH=$WT/src /venv/bin/python -m pytest -q -p no:cacheprovider --continue-on-collection-errors tests/unit_tests tests/integration_tests -q -rfE 2>&1 | grep -E "^(FAILED|ERROR)" | sed 's/ - .*//' | sort); }
if [ ! -f /tmp/confirm_base.txt ]; then git -C $WT checkout -q -- .; run_tests > /tmp/confirm_base.txt; fi
for d in "$@"; do
  git -C $WT checkout -q -- .
  (cd $WT && PYTHONPATH=$WT/src /venv/bin/python $d/demo.py >/dev/null 2>&1); clean=$?
  git -C $WT apply $d/patch.diff || { echo "$d: PATCH DOES NOT APPLY"; continue; }
  (cd $WT && PYTHONPATH=$WT/src /venv/bin/python $d/demo.py >/dev/null 2>&1); mut=$?
  run_tests > /tmp/confirm_mut.txt
  new=$(comm -13 /tmp/confirm_base.txt /tmp/confirm_mut.txt | wc -l)
  git -C $WT checkout -q -- .
  echo "$d: demo clean=$clean mutated=$mut new_test_failures=$new"
done
