#!/bin/sh
# usage: confirm_demo.sh <seed dir>...  -- runs each seed's demo in the scratch worktree /tmp/wt_confirm with and without its patch
WT=${CONFIRM_WT:-/tmp/wt_confirm}
[ -d $WT ] || git -C /repo worktree add -q --detach $WT HEAD
for d in "$@"; do
  git -C $WT checkout -q -- .
  demo=$(ls $d/demo* | head -1)
  (cd $WT && PYTHONPATH=$WT/src timeout 900 /venv/bin/python $demo >/dev/null 2>&1); clean=$?
  git -C $WT apply $d/patch.diff || { echo "$d PATCH DOES NOT APPLY"; continue; }
  (cd $WT && PYTHONPATH=$WT/src timeout 900 /venv/bin/python $demo >/dev/null 2>&1); seeded=$?
  git -C $WT checkout -q -- .
  echo "$d demo exit: clean=$clean seeded=$seeded"
done
