#!/bin/sh
# Build the overlay interpreter used by every check: python 3.12 (the repo's) + z3-solver wheel + .pth to /venv's
# site-packages so the same interpreter imports primaite (from /repo, editable) for native replays.  Offline.
set -e
cd "$(dirname "$0")"
if [ -x .venv/bin/python ] && .venv/bin/python -c "import z3, primaite" >/dev/null 2>&1; then
  echo "setup: .venv already usable"; exit 0
fi
rm -rf .venv
/venv/bin/python -m venv .venv
PIP_NO_INDEX=1 .venv/bin/python -m pip install -q --no-index --no-deps --find-links /opt/veriftools/wheels z3-solver
SP=$(.venv/bin/python -c "import sysconfig;print(sysconfig.get_paths()['purelib'])")
echo "import site; site.addsitedir('/venv/lib/python3.12/site-packages')" > "$SP/_repo.pth"
.venv/bin/python -W ignore -c "import z3, primaite; print('setup: ok z3', z3.get_version_string())"
