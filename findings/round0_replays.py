"""Round-0 native replays backing DESIGN.md section 4.  NOT part of the checking machinery (none exists yet).

Run:  /venv/bin/python /verif/findings/round0_replays.py [F0 F1 ...]
Each function reproduces one predicted failing obligation on the real code imported from /repo and prints
  <id> REPRODUCED|not-reproduced  <one-line witness>
F3 needs several interpreter processes and re-invokes this file with different PYTHONHASHSEED values.
"""
import copy
import os
import subprocess
import sys
import tempfile
import warnings
from pathlib import Path

warnings.filterwarnings("ignore")

import yaml  # noqa: E402

from primaite.game.game import PrimaiteGame  # noqa: E402
from primaite.simulator.network.container import Network  # noqa: E402
from primaite.simulator.network.hardware import base  # noqa: E402
from primaite.simulator.network.hardware.nodes.host.computer import Computer  # noqa: E402
from primaite.simulator.network.hardware.nodes.host.server import Server  # noqa: E402
from primaite.simulator.network.hardware.nodes.network.router import AccessControlList, ACLAction, ACLRule  # noqa: E402
from primaite.simulator.system.core.sys_log import SysLog  # noqa: E402

BASE_CFG = "/repo/tests/assets/configs/basic_switched_network.yaml"


def _host(cls, kind, name, ip, up=0, down=0):
    return cls.from_config(
        {"type": kind, "hostname": name, "ip_address": ip, "subnet_mask": "255.255.255.0",
         "start_up_duration": up, "shut_down_duration": down}
    )


def _two_hosts(bandwidth=100, down=0):
    net = Network()
    a = _host(Computer, "computer", "a", "10.0.0.1", down=down)
    b = _host(Server, "server", "b", "10.0.0.2", down=down)
    a.power_on(), b.power_on()
    net.add_node(a), net.add_node(b)
    net.connect(a.network_interface[1], b.network_interface[1], bandwidth=bandwidth)
    return net, a, b


def report(fid, ok, msg):
    print(f"{fid} {'REPRODUCED' if ok else 'not-reproduced'}  {msg}")


def F0():  # C18 link overload through a reply nested in receive_frame
    net, a, b = _two_hosts()
    link = list(net.links.values())[0]
    a.ping("10.0.0.2", pings=1)  # warm ARP
    sizes = []
    orig = base.Link.transmit_frame

    def spy(self, sender_nic, frame):
        sizes.append(frame.size_Mbits)
        return orig(self, sender_nic, frame)

    base.Link.transmit_frame = spy
    try:
        net.pre_timestep(1)
        a.ping("10.0.0.2", pings=1)
        link.bandwidth = 1.5 * max(sizes)
        net.pre_timestep(2)
        a.ping("10.0.0.2", pings=1)
    finally:
        base.Link.transmit_frame = orig
    report("F0", link.current_load > link.bandwidth, f"load={link.current_load:.6f} bandwidth={link.bandwidth:.6f}")


def F1():  # C11 check_valid ignores validators of intermediate request managers
    net = Network()
    a = _host(Computer, "computer", "a", "10.0.0.1", up=3, down=3)
    a.power_on()
    [a.apply_timestep(i) for i in range(5)]
    net.add_node(a)
    a.power_off()
    [a.apply_timestep(i) for i in range(5)]
    req = ["node", "a", "service", "dns-client", "start"]
    valid = net._request_manager.check_valid(req, {})
    resp = net.apply_request(req)
    report("F1", valid and resp.status != "success", f"state={a.operating_state.name} check_valid={valid} call={resp.status}")


def F2():  # C12 zero shut-down duration leaves NICs enabled; OFF host answers ping
    net, a, b = _two_hosts()
    a.ping("10.0.0.2")  # warm ARP cache: with a cold cache the stopped ARP service masks the effect
    b.apply_request(["shutdown"])
    enabled = [n.enabled for n in b.network_interfaces.values()]
    pong = a.ping("10.0.0.2")
    report("F2", any(enabled) or pong, f"b={b.operating_state.name} nic_enabled={enabled} ping_to_off_host={pong}")


def F3_child():
    from ipaddress import IPv4Network

    from primaite.simulator.system.applications.nmap import NMAP

    print(",".join(str(x) for x in NMAP._explode_ip_address_network_array(IPv4Network("192.168.1.0/29"))))


def F3():  # C03 set iteration order depends on PYTHONHASHSEED
    outs = set()
    for seed in ("1", "2", "3"):
        env = dict(os.environ, PYTHONHASHSEED=seed)
        r = subprocess.run([sys.executable, __file__, "F3_child"], env=env, capture_output=True, text=True)
        outs.add(r.stdout.strip().splitlines()[-1])
    report("F3", len(outs) > 1, f"{len(outs)} distinct iteration orders over 3 hash seeds")


def _fs():
    from primaite.simulator.file_system.file_system import FileSystem

    return FileSystem(sys_log=SysLog(hostname="x"), sim_root=Path(tempfile.mkdtemp(prefix="verif_fs_")))


def F5():  # C15/C01 creating an existing file raises or duplicates
    fs = _fs()
    fs.apply_request(["create", "file", "docs", "a.txt", False])
    raised = None
    try:
        fs.apply_request(["create", "file", "docs", "a.txt", False])
    except Exception as e:  # noqa
        raised = f"{type(e).__name__}: {e}"
    fs.apply_request(["create", "file", "docs", "a.txt", True])
    names = [f.name for f in fs.get_folder("docs").files.values()]
    report("F5", raised is not None or len(names) != len(set(names)), f"raised={raised!r} live_names={names}")


def F14():  # C15 restore leaves the file in both maps
    fs = _fs()
    fs.apply_request(["create", "file", "docs", "a.txt", False])
    fs.apply_request(["delete", "file", "docs", "a.txt"])
    fs.apply_request(["restore", "file", "docs", "a.txt"])
    f = fs.get_folder("docs")
    both = set(f.files) & set(f.deleted_files)
    report("F14", bool(both), f"uuids in both live and deleted: {len(both)}")


def F8():  # C07 port 0 treated as unspecified
    from primaite.simulator.network.transmission.data_link_layer import EthernetHeader, Frame
    from primaite.simulator.network.transmission.network_layer import IPPacket
    from primaite.simulator.network.transmission.transport_layer import TCPHeader

    fr = Frame(
        ethernet=EthernetHeader(src_mac_addr="aa:aa:aa:aa:aa:aa", dst_mac_addr="bb:bb:bb:bb:bb:bb"),
        ip=IPPacket(src_ip_address="10.0.0.1", dst_ip_address="10.0.0.2", protocol="tcp"),
        tcp=TCPHeader(src_port=80, dst_port=80),
    )
    rule = ACLRule(action=ACLAction.DENY, dst_port=0)
    _, matched = rule.permit_frame_check(fr)
    report("F8", matched, f"rule dst_port=0 matches tcp:80 -> {matched}")


def F9():  # C07 robustness: position 24 -> IndexError
    acl = AccessControlList(name="x", implicit_action=ACLAction.DENY, sys_log=SysLog(hostname="r"))
    try:
        acl.add_rule(action=ACLAction.PERMIT, position=acl.max_acl_rules - 1)
        report("F9", False, "no exception")
    except Exception as e:  # noqa
        report("F9", isinstance(e, IndexError), f"{type(e).__name__}")


def F6():  # C02 traffic category above Discrete(11)
    from primaite.game.agent.observations.nic_observations import NICObservation

    v = NICObservation(where=["x"], include_nmne=False)._categorise_traffic(200.0, {"speed": 100.0})
    report("F6", v > 10, f"category={v}")


def F17():  # C19/C20 probability vector follows insertion order
    from primaite.game.agent.scripted_agents.probabilistic_agent import ProbabilisticAgent

    s = ProbabilisticAgent.AgentSettingsSchema(action_probabilities={1: 0.0, 0: 1.0})
    from types import SimpleNamespace as NS

    # the real property body, evaluated on a stub agent that only carries the validated settings
    vec = list(ProbabilisticAgent.probabilities.fget(NS(config=NS(agent_settings=s))))
    report("F17", vec[1] != s.action_probabilities[1], f"vector={vec} but P(1)={s.action_probabilities[1]}")


def F4_F12p_F11():  # C16 password change / unknown logout, C13 duplicate install
    from primaite.simulator.system.services.dns.dns_client import DNSClient

    net, a, b = _two_hosts()
    n0 = len(a.services)
    a.software_manager.install(DNSClient)
    dup = sorted(s.name for s in a.services.values()).count("dns-client")
    report("F11", dup > 1, f"services {n0}->{len(a.services)}, named dns-client: {dup}")
    usm = b.user_session_manager
    s1 = usm.remote_login("admin", "admin", "10.0.0.1")
    s2 = usm.remote_login("admin", "admin", "10.0.0.1")
    b.user_manager.change_user_password("admin", "admin", "new")
    alive = [usm.validate_remote_session_uuid(s) for s in (s1, s2)]
    report("F4", any(alive), f"sessions still valid after password change: {alive}")
    try:
        b.apply_request(["service", "user-session-manager", "remote_logout", "nope"])
        report("F12'", False, "no exception")
    except Exception as e:  # noqa
        report("F12'", True, f"{type(e).__name__} escapes apply_request")


def F7_F10_F12_F13_scan0():
    from primaite.game.agent.observations.acl_observation import ACLObservation
    from primaite.game.agent.observations.file_system_observations import FolderObservation
    from primaite.game.agent.observations.host_observations import HostObservation
    from primaite.game.agent.observations.nic_observations import NICObservation

    a = _host(Computer, "computer", "a", "10.0.0.1")
    a.power_on()
    for i in range(5):
        a.file_system.create_file(folder_name="d", file_name=f"f{i}.txt")
    h = HostObservation(
        where=["a"], services=[], applications=[], folders=[], network_interfaces=[], num_services=0,
        num_applications=0, num_folders=0, num_files=0, num_nics=0, include_nmne=False, monitored_traffic=None,
        include_num_access=True, file_system_requires_scan=False, services_requires_scan=False,
        applications_requires_scan=False, include_users=False,
    )
    o = h.observe({"a": a.describe_state()})
    report("F7", not h.space.contains(o), f"num_file_creations leaf={o['num_file_creations']}")

    fo = FolderObservation(where=["a", "file_system", "folders", "d"], files=[], num_files=0,
                           include_num_access=False, file_system_requires_scan=True)
    d = a.file_system.get_folder("d")
    d.corrupt()
    d.scan_duration = 1
    d.scan()
    seq = []
    for t in range(4):
        a.file_system.pre_timestep(t)
        d.apply_timestep(t)
        seq.append((d.visible_health_status.value, fo.observe({"a": a.describe_state()})["health_status"]))
    report("F10", any(v != o_ for v, o_ in seq), f"(visible, observed) per tick {seq}")

    acl = AccessControlList(name="x", implicit_action=ACLAction.DENY, sys_log=SysLog(hostname="r"))
    acl.add_rule(action=ACLAction.PERMIT, src_ip_address="10.9.9.9", position=0)
    ao = ACLObservation(where=["acl"], num_rules=3, ip_list=["10.0.0.1"], wildcard_list=[], port_list=[],
                        protocol_list=[])
    try:
        ao.observe({"acl": acl.describe_state()["acl"]})
        report("F12", False, "no exception")
    except KeyError as e:
        report("F12", True, f"KeyError {e}")

    saved = NICObservation.capture_nmne
    NICObservation.capture_nmne = False
    try:
        no = NICObservation(where=["a", "NICs", 1], include_nmne=True)
        ob = no.observe({"a": a.describe_state()})
        report("F13", not no.space.contains(ob), f"obs keys {list(ob)} space keys {list(no.space.spaces)}")
    finally:
        NICObservation.capture_nmne = saved

    z = a.file_system.create_folder("z")
    a.file_system.create_file(folder_name="z", file_name="q.txt")
    z.scan_duration = 0
    z.corrupt()
    z.scan()
    for t in range(5):
        z.apply_timestep(t)
    report("C14-scan0", z.visible_health_status != z.health_status,
           f"visible={z.visible_health_status.name} actual={z.health_status.name}")


def F15_F18_F19():
    from primaite.simulator.network.hardware.base import NetworkInterface

    cfg = yaml.safe_load(open(BASE_CFG))
    saved = NetworkInterface.nmne_config
    try:
        c1 = copy.deepcopy(cfg)
        c1["simulation"]["network"]["nmne_config"] = {"capture_nmne": True, "nmne_capture_keywords": ["DELETE"]}
        c2 = copy.deepcopy(cfg)
        c2["simulation"]["network"].pop("nmne_config", None)
        g1 = PrimaiteGame.from_config(c1)
        nic = g1.simulation.network.get_node_by_hostname("client_1").network_interface[1]
        before = "nmne" in nic.describe_state()
        PrimaiteGame.from_config(c2)
        after = "nmne" in nic.describe_state()
        report("F15", before and not after, f"game A reports nmne before/after building game B: {before}/{after}")
    finally:
        NetworkInterface.nmne_config = saved

    c = copy.deepcopy(cfg)
    n0 = [n for n in c["simulation"]["network"]["nodes"] if n["type"] == "computer"][0]
    n0["network_interfaces"] = {3: {"ip_address": "10.9.3.3", "subnet_mask": "255.255.255.0"},
                                2: {"ip_address": "10.9.2.2", "subnet_mask": "255.255.255.0"}}
    g = PrimaiteGame.from_config(c)
    ports = {k: str(v.ip_address) for k, v in g.simulation.network.get_node_by_hostname(n0["hostname"]).network_interface.items()}
    report("F18", ports.get(3) != "10.9.3.3", f"ports={ports}")

    c = copy.deepcopy(cfg)
    c["defaults"] = {"node_start_up_duration": 7}
    try:
        PrimaiteGame.from_config(c)
        err = None
    except KeyError as e:
        err = f"KeyError {e}"
    c = copy.deepcopy(cfg)
    c["defaults"] = {"node_shut_down_duration": 7}
    g = PrimaiteGame.from_config(c)
    got = g.simulation.network.get_node_by_hostname("client_1").config.shut_down_duration
    report("F19", err is not None or got != 7, f"start-up default: {err}; shut-down default 7 -> {got}")


ALL = [F0, F1, F2, F3, F5, F14, F8, F9, F6, F17, F4_F12p_F11, F7_F10_F12_F13_scan0, F15_F18_F19]

if __name__ == "__main__":
    if sys.argv[1:] == ["F3_child"]:
        F3_child()
        sys.exit(0)
    wanted = set(sys.argv[1:])
    for fn in ALL:
        if not wanted or wanted & set(fn.__name__.split("_")) or fn.__name__ in wanted:
            try:
                fn()
            except Exception as exc:  # a crash of a replay script is not a reproduction
                print(f"{fn.__name__} SCRIPT-ERROR {type(exc).__name__}: {exc}")
