"""Mechanical extraction of the real code: every run re-reads /repo/src/primaite with `ast`.

Nothing here is a copy of the code: the symbolic executor interprets the FunctionDef / Lambda / ClassDef nodes
produced by ast.parse on the very files CPython imports.  This module indexes modules, classes (bases, annotated
fields, defaults, methods, enum members) and functions, resolves names across modules through the import statements,
and records the sha256 of every source segment that ends up under contract.
"""
from __future__ import annotations

import ast
import hashlib
import os
from typing import Dict, List, Optional

REPO = os.environ.get("PYVC_REPO", "/repo")
SRC = os.path.join(REPO, "src")
PKG = "primaite"


class FuncInfo:
    def __init__(self, name, qualname, module, node, cls=None):
        self.name = name
        self.qualname = qualname  # Class.method or func
        self.module: ModuleInfo = module
        self.node = node
        self.cls: Optional[ClassInfo] = cls
        self.decorators = [_deco_name(d) for d in getattr(node, "decorator_list", [])]

    @property
    def key(self) -> str:
        return f"{self.module.relpath}::{self.qualname}"

    @property
    def is_property(self):
        return any(d in ("property", "computed_field", "cached_property", "functools.cached_property") for d in self.decorators)

    @property
    def is_classmethod(self):
        return "classmethod" in self.decorators

    @property
    def is_staticmethod(self):
        return "staticmethod" in self.decorators

    def source(self) -> str:
        return ast.get_source_segment(self.module.text, self.node) or ""

    def sha(self) -> str:
        return hashlib.sha256(self.source().encode()).hexdigest()

    def __repr__(self):
        return f"<Func {self.key}>"


def _deco_name(d) -> str:
    if isinstance(d, ast.Call):
        d = d.func
    if isinstance(d, ast.Name):
        return d.id
    if isinstance(d, ast.Attribute):
        return ast.unparse(d)
    return ast.unparse(d)


class ClassInfo:
    _next_id = [1]

    def __init__(self, name, module, node):
        self.name = name
        self.module: ModuleInfo = module
        self.node = node
        self.cid = ClassInfo._next_id[0]
        ClassInfo._next_id[0] += 1
        self.base_exprs = node.bases
        self.fields: Dict[str, tuple] = {}  # name -> (annotation node | None, default node | None)
        self.methods: Dict[str, FuncInfo] = {}
        self.nested: Dict[str, "ClassInfo"] = {}
        self.outer: Optional["ClassInfo"] = None
        self._mro = None
        for st in node.body:
            if isinstance(st, ast.AnnAssign) and isinstance(st.target, ast.Name):
                self.fields[st.target.id] = (st.annotation, st.value)
            elif isinstance(st, ast.Assign) and len(st.targets) == 1 and isinstance(st.targets[0], ast.Name):
                self.fields[st.targets[0].id] = (None, st.value)
            elif isinstance(st, (ast.FunctionDef,)):
                fi = FuncInfo(st.name, f"{name}.{st.name}", module, st, self)
                if st.name in self.methods and fi.decorators and fi.decorators[0].endswith(".setter"):
                    self.methods[st.name + ".setter"] = fi
                else:
                    self.methods[st.name] = fi
            elif isinstance(st, ast.ClassDef):
                ci = ClassInfo(f"{name}.{st.name}", module, st)
                ci.outer = self
                self.nested[st.name] = ci

    def self_annotations(self) -> Dict[str, ast.AST]:
        """`self.x: T = ...` statements in the class's own methods (attributes declared in __init__ and friends)."""
        if not hasattr(self, "_self_ann"):
            out = {}
            for m in self.methods.values():
                for n in ast.walk(m.node):
                    if isinstance(n, ast.AnnAssign) and isinstance(n.target, ast.Attribute) and isinstance(n.target.value, ast.Name) \
                            and n.target.value.id == "self":
                        out.setdefault(n.target.attr, n.annotation)
            self._self_ann = out
        return self._self_ann

    @property
    def key(self):
        return f"{self.module.relpath}::{self.name}"

    def bases(self) -> List["ClassInfo"]:
        out = []
        for b in self.base_exprs:
            r = self.module.resolve_expr(b, self)
            if isinstance(r, ClassInfo):
                out.append(r)
        return out

    def ext_bases(self) -> List[str]:
        out = []
        for b in self.base_exprs:
            r = self.module.resolve_expr(b, self)
            if not isinstance(r, ClassInfo):
                out.append(ast.unparse(b))
        return out

    def mro(self) -> List["ClassInfo"]:
        if self._mro is None:
            # C3 linearisation
            seqs = [b.mro()[:] for b in self.bases()] + [self.bases()[:]]
            res = [self]
            while True:
                seqs = [s for s in seqs if s]
                if not seqs:
                    break
                for s in seqs:
                    cand = s[0]
                    if not any(cand in t[1:] for t in seqs):
                        break
                else:
                    raise RuntimeError(f"inconsistent MRO for {self.name}")
                res.append(cand)
                for s in seqs:
                    if s and s[0] is cand:
                        del s[0]
            self._mro = res
        return self._mro

    def is_subclass_of(self, other: "ClassInfo") -> bool:
        return other in self.mro()

    def all_ext_bases(self) -> List[str]:
        out = []
        for c in self.mro():
            out += c.ext_bases()
        return out

    @property
    def is_enum(self):
        return any(b.split(".")[-1] in ("Enum", "IntEnum", "StrEnum", "Flag") for b in self.all_ext_bases())

    @property
    def is_int_enum(self):
        return any(b.split(".")[-1] == "IntEnum" for b in self.all_ext_bases())

    @property
    def is_pydantic(self):
        return any(b.split(".")[-1] == "BaseModel" for b in self.all_ext_bases())

    def enum_members(self) -> Dict[str, object]:
        out = {}
        for n, (ann, dflt) in self.fields.items():
            if ann is None and dflt is not None and not n.startswith("_"):
                try:
                    out[n] = ast.literal_eval(dflt)
                except Exception:
                    out[n] = ast.unparse(dflt)
        return out

    def find_method(self, name) -> Optional[FuncInfo]:
        for c in self.mro():
            if name in c.methods:
                return c.methods[name]
        return None

    def find_method_after(self, name, after: "ClassInfo") -> Optional[FuncInfo]:
        m = self.mro()
        i = m.index(after)
        for c in m[i + 1:]:
            if name in c.methods:
                return c.methods[name]
        return None

    def find_field(self, name):
        for c in self.mro():
            if name in c.fields:
                return c, c.fields[name]
        return None

    def subclasses(self) -> List["ClassInfo"]:
        return [c for c in Repo.get().all_classes() if self in c.mro()]

    def __repr__(self):
        return f"<Class {self.name}>"


class ModuleInfo:
    def __init__(self, name, path):
        self.name = name
        self.path = path
        self.relpath = os.path.relpath(path, REPO)
        with open(path, encoding="utf-8") as f:
            self.text = f.read()
        self.tree = ast.parse(self.text, filename=path)
        self.globals: Dict[str, tuple] = {}
        self.is_pkg = os.path.basename(path) == "__init__.py"
        self._index(self.tree.body)

    def _index(self, body):
        for st in body:
            if isinstance(st, ast.ClassDef):
                self.globals[st.name] = ("class", ClassInfo(st.name, self, st))
            elif isinstance(st, ast.FunctionDef):
                self.globals[st.name] = ("func", FuncInfo(st.name, st.name, self, st))
            elif isinstance(st, ast.Import):
                for a in st.names:
                    self.globals[(a.asname or a.name).split(".")[0]] = ("module", a.name if a.asname else a.name.split(".")[0])
            elif isinstance(st, ast.ImportFrom):
                mod = st.module or ""
                if st.level:
                    base = self.name.split(".")
                    if not self.is_pkg:
                        base = base[:-1]
                    base = base[: len(base) - (st.level - 1)]
                    mod = ".".join(base + ([mod] if mod else []))
                for a in st.names:
                    self.globals[a.asname or a.name] = ("from", mod, a.name)
            elif isinstance(st, ast.Assign):
                for t in st.targets:
                    if isinstance(t, ast.Name):
                        self.globals[t.id] = ("assign", st.value)
            elif isinstance(st, ast.AnnAssign) and isinstance(st.target, ast.Name) and st.value is not None:
                self.globals[st.target.id] = ("assign", st.value)
            elif isinstance(st, (ast.If, ast.Try)):
                # TYPE_CHECKING imports etc.
                for sub in ast.iter_child_nodes(st):
                    if isinstance(sub, list):
                        continue
                self._index([s for s in ast.walk(st) if isinstance(s, (ast.Import, ast.ImportFrom))])

    def resolve_name(self, name):
        """Resolve a module-global name to ClassInfo | FuncInfo | ('ext', qualified) | ('assign', module, node) | None."""
        g = self.globals.get(name)
        if g is None:
            return None
        kind = g[0]
        if kind in ("class", "func"):
            return g[1]
        if kind == "assign":
            return ("assign", self, g[1])
        if kind == "module":
            m = Repo.get().module(g[1])
            return m if m else ("ext", g[1])
        if kind == "from":
            mod, attr = g[1], g[2]
            m = Repo.get().module(mod)
            if m is not None:
                if attr in m.globals:
                    return m.resolve_name(attr)
                sub = Repo.get().module(mod + "." + attr)
                if sub:
                    return sub
                return None
            return ("ext", f"{mod}.{attr}")
        return None

    def resolve_expr(self, node, cls: Optional[ClassInfo] = None):
        """Resolve Name / dotted Attribute at module level (used for base classes and annotations)."""
        if isinstance(node, ast.Name):
            if cls is not None:
                c = cls
                while c is not None:
                    if node.id in c.nested:
                        return c.nested[node.id]
                    c = c.outer
            return self.resolve_name(node.id)
        if isinstance(node, ast.Attribute):
            base = self.resolve_expr(node.value, cls)
            if isinstance(base, ModuleInfo):
                return base.resolve_name(node.attr)
            if isinstance(base, ClassInfo):
                if node.attr in base.nested:
                    return base.nested[node.attr]
                return None
            if isinstance(base, tuple) and base[0] == "ext":
                return ("ext", base[1] + "." + node.attr)
            return None
        if isinstance(node, ast.Constant) and isinstance(node.value, str):
            try:
                return self.resolve_expr(ast.parse(node.value, mode="eval").body, cls)
            except SyntaxError:
                return None
        if isinstance(node, ast.Subscript):  # Generic[...] bases
            return self.resolve_expr(node.value, cls)
        return None

    def __repr__(self):
        return f"<Module {self.name}>"


class Repo:
    _inst = None

    @classmethod
    def get(cls) -> "Repo":
        if cls._inst is None:
            cls._inst = Repo()
        return cls._inst

    @classmethod
    def reset(cls):
        cls._inst = None
        ClassInfo._next_id[0] = 1

    def __init__(self):
        self.modules: Dict[str, ModuleInfo] = {}
        self._missing = set()
        root = os.path.join(SRC, PKG)
        for dp, dn, fn in os.walk(root):
            dn.sort()
            for f in sorted(fn):
                if f.endswith(".py"):
                    p = os.path.join(dp, f)
                    rel = os.path.relpath(p, SRC)[:-3].replace(os.sep, ".")
                    if rel.endswith(".__init__"):
                        rel = rel[: -len(".__init__")]
                    try:
                        self.modules[rel] = ModuleInfo(rel, p)
                    except SyntaxError:
                        self._missing.add(rel)

    def module(self, name) -> Optional[ModuleInfo]:
        return self.modules.get(name)

    def all_classes(self) -> List[ClassInfo]:
        out = []

        def rec(ci):
            out.append(ci)
            for n in ci.nested.values():
                rec(n)

        for m in self.modules.values():
            for g in m.globals.values():
                if g[0] == "class":
                    rec(g[1])
        return out

    def all_functions(self) -> List[FuncInfo]:
        out = []
        for m in self.modules.values():
            for g in m.globals.values():
                if g[0] == "func":
                    out.append(g[1])
        for c in self.all_classes():
            out += list(c.methods.values())
        return out

    def find(self, key: str):
        """key = 'src/primaite/x/y.py::Class.method' | '...::func' | '...::Outer.Inner.method' | '...::Class'."""
        rel, _, qual = key.partition("::")
        mod = None
        for m in self.modules.values():
            if m.relpath == rel:
                mod = m
                break
        if mod is None:
            raise KeyError(f"no module {rel}")
        parts = qual.split(".")
        g = mod.globals.get(parts[0])
        if g is None or g[0] not in ("class", "func"):
            raise KeyError(f"no top-level {parts[0]} in {rel}")
        cur = g[1]
        for p in parts[1:]:
            if isinstance(cur, ClassInfo):
                if p in cur.nested:
                    cur = cur.nested[p]
                elif p in cur.methods:
                    cur = cur.methods[p]
                else:
                    raise KeyError(f"{key}: no member {p}")
            else:
                raise KeyError(f"{key}: {p} below a function")
        return cur

    def class_by_name(self, name: str) -> ClassInfo:
        hits = [c for c in self.all_classes() if c.name == name]
        if len(hits) != 1:
            raise KeyError(f"class name {name}: {len(hits)} candidates")
        return hits[0]
