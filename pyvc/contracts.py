"""Sidecar contract registry.  Contract files under /verif/contracts call these functions at import time.

All conditions are Python expression strings; they are parsed with `ast` and evaluated by the same symbolic evaluator
that runs the code under verification (spec mode: no obligations are generated inside them, `and/or/if-else` are
encoded as formulas).  Extra forms available in conditions:
    old(e)                      value of e in the function's entry state
    result                      the return value
    implies(a, b), iff(a, b)
    forall(i, lo, hi, body)     integer-bounded quantifier  (exists likewise)
    forall_obj(r, Class, body)  quantifier over all live objects of a class (exists_obj likewise)
    spec functions registered with spec()
"""
from __future__ import annotations

import ast
from typing import Dict, List, Optional


class Contract:
    def __init__(self, key, **kw):
        self.key = key
        self.requires = _labelled(kw.pop("requires", []), "pre")
        self.ensures = _labelled(kw.pop("ensures", []), "post")
        self.modifies: Optional[List[str]] = kw.pop("modifies", None)  # None = unspecified (=> everything at call sites)
        self.raises: Dict[str, str] = kw.pop("raises", {})  # exception name -> condition (entry state) under which it may be raised
        self.raises_ensures = _labelled(kw.pop("raises_ensures", []), "rpost")  # must hold when an allowed exception escapes
        self.loops: Dict[int, dict] = {}
        for k, v in kw.pop("loops", {}).items():
            if isinstance(v, (list, tuple)):
                v = {"inv": list(v)}
            v = dict(v)
            v["inv"] = _labelled(v.get("inv", []), f"inv{k}")
            self.loops[k] = v
        self.inline = set(kw.pop("inline", []))
        self.props = list(kw.pop("props", []))
        self.types: Dict[str, str] = kw.pop("types", {})  # local/param name -> annotation string
        self.attr_types: Dict[str, str] = kw.pop("attr_types", {})  # 'Class.attr' -> annotation string
        self.self_class: Optional[str] = kw.pop("self_class", None)
        self.exact_events = kw.pop("exact_events", False)  # the call logs exactly the events listed in emits (no unknown ones)
        self.emits_after = kw.pop("emits_after", [])  # like emits, but arguments are evaluated after the call (may mention result)
        self.emits = kw.pop("emits", [])  # events appended when called by contract: list of (kind, [arg exprs], cond)
        self.verify = kw.pop("verify", True)  # False = assumed contract (trusted), listed in evidence
        self.note = kw.pop("note", "")
        self.region = kw.pop("region", None)  # for lambdas / nested: ('lambda', n) etc.
        self.max_paths = kw.pop("max_paths", 4000)
        self.budget_s = kw.pop("budget_s", None)
        self.split = kw.pop("split", None)  # explore the paths below each decision prefix of this depth as separate parallel tasks  # per-function wall-clock budget override
        self.invariants = list(kw.pop("invariants", []))  # names of class invariants to assume on entry / prove on exit
        self.params: Optional[List[str]] = kw.pop("params", None)
        self.reveal = set(kw.pop("reveal", []))
        self.allocates: bool = kw.pop("allocates", False)
        self.axioms = _labelled(kw.pop("axioms", []), "axiom")  # definitional facts about ufuns, instantiated for this call
        self.preserves: List[str] = list(kw.pop("preserves", []))  # with modifies=["heap"]: locations guaranteed unchanged
        self.bounded: Optional[int] = kw.pop("bounded", None)  # bounded stand-in: checked only for containers of size <= K
        # {callee qualname: [spec]}: facts assumed about the RESULT of that callee at its call sites inside this function only
        # (typically the shape of data fetched from an untyped structure); listed in evidence as assumptions
        self.assume_after_call: Dict[str, List[str]] = dict(kw.pop("assume_after_call", {}))
        # termination measure for self-recursive functions: an integer expression over the parameters that is >= 0 and strictly
        # smaller at every recursive call than at entry (obligation `decreases` at each such call site)
        self.decreases: Optional[str] = kw.pop("decreases", None)
        # termination-only view: every callee other than the function itself is replaced by "any effect, any result" (a sound
        # over-approximation for obligations that talk about the parameters only, such as `decreases`)
        self.abstract_callees: bool = kw.pop("abstract_callees", False)
        # method names whose calls inside this function are ALWAYS taken by the dispatch (call-site) contract of the base method,
        # also for self-calls and statically resolved receivers -- the caller then sees them as one event, not their inner steps
        self.use_dispatch = list(kw.pop("use_dispatch", []))
        self.dyn_classes = list(kw.pop("dyn_classes", []))  # classes whose __call__ contract serves dynamic calls
        self.dyn_result = kw.pop("dyn_result", None)  # assumed return annotation of unknown callables  # may the function allocate objects that outlive the call?  # opaque spec functions whose definition this proof may use
        if kw:
            raise TypeError(f"unknown contract fields {list(kw)} for {key}")


def _labelled(items, prefix):
    out = []
    if isinstance(items, dict):
        items = list(items.items())
    for n, it in enumerate(items):
        if isinstance(it, (tuple, list)):
            out.append((it[0], it[1]))
        else:
            out.append((f"{prefix}{n}", it))
    return out


class SpecFn:
    def __init__(self, name, params, body, doc="", opaque=False, ret="bool"):
        self.opaque = opaque  # encoded as an uninterpreted function except in contracts that `reveal` it
        self.ret = ret
        self.name = name
        self.params = params
        self.body = body
        self.tree = ast.parse("(" + body.strip() + ")", mode="eval").body
        self.doc = doc


class Registry:
    def __init__(self):
        self.contracts: Dict[str, Contract] = {}
        self.specs: Dict[str, SpecFn] = {}
        self.inline: set = set()
        self.attr_types: Dict[str, str] = {}
        self.trusted_effect_free: List[str] = []
        self.invariants: Dict[str, tuple] = {}
        self.lemmas: list = []
        self.ufuns: Dict[str, tuple] = {}
        self.writer_rules: list = []
        self.native: list = []
        self.scans: list = []
        self.dispatch: Dict[str, Contract] = {}

    def dispatch_contract(self, key, **kw):
        """Assumed contract used at call sites that may dispatch to any override of the method (never verified itself)."""
        kw["verify"] = False
        self.dispatch[key] = Contract(key, **kw)
        return self.dispatch[key]

    def scan(self, prop, name, fn):
        """Whole-tree syntactic scan (pyvc.scans): fn() -> list of obligation dicts."""
        self.scans.append({"prop": prop, "name": name, "fn": fn})

    def native_bounded(self, prop, name, script, bound, what):
        """Bounded stand-in executed natively on the real functions (exhaustive small scope); never counted as proved."""
        self.native.append({"prop": prop, "name": name, "script": script, "bound": bound, "what": what})

    def writers(self, prop, attr, allowed, why=""):
        """Whole-tree syntactic obligation: attribute `attr` is stored to only inside the listed functions."""
        self.writer_rules.append({"prop": prop, "attr": attr, "allowed": list(allowed), "why": why})

    def ufun(self, name, nargs, ret="bool"):
        """Uninterpreted spec function over values (heap dependence must be made explicit, e.g. through epoch())."""
        self.ufuns[name] = (nargs, ret)

    def contract(self, key, **kw) -> Contract:
        c = Contract(key, **kw)
        if key in self.contracts:
            raise KeyError(f"duplicate contract {key}")
        self.contracts[key] = c
        return c

    def spec(self, sig: str, body: str, doc="", opaque=False, ret="bool"):
        name, _, rest = sig.partition("(")
        params = [p.strip() for p in rest.rstrip(")").split(",") if p.strip()]
        self.specs[name.strip()] = SpecFn(name.strip(), params, body, doc, opaque, ret)

    def inline_fn(self, *keys):
        self.inline.update(keys)

    def attr_type(self, **kw):
        self.attr_types.update(kw)

    def invariant(self, name, cls, cond):
        self.invariants[name] = (cls, cond)


REG = Registry()
contract = REG.contract
spec = REG.spec
inline = REG.inline_fn
invariant = REG.invariant
ufun = REG.ufun
writers = REG.writers
native_bounded = REG.native_bounded
scan = REG.scan
dispatch_contract = REG.dispatch_contract


def attr_types(d):
    REG.attr_types.update(d)
