"""Comprehensions, any/all/sum and collection constructors."""
from __future__ import annotations

import ast

import z3

from . import smt
from . import types as T
from .interp import (DICT_CID, LIST_CID, NOC, SET_CID, Frame, Interp, PIter, PTuple, Refuse, SV, const)
from .loops import to_seq
from .smt import Val


def _bind(I: Interp, target, v, fr: Frame):
    I.assign(target, v, fr)


def _iter_concrete(I: Interp, gens, fr: Frame, k, body):
    """Nested concrete iteration with (possibly symbolic) filters, forking on filters."""
    if k == len(gens):
        body(fr)
        return
    g = gens[k]
    if g.is_async:
        raise Refuse("async comprehension")
    seq = to_seq(I, I.ev(g.iter, fr))
    if seq.concrete is None:
        raise Refuse("nested symbolic comprehension")
    for v in seq.concrete:
        _bind(I, g.target, v, fr)
        ok = True
        for c in g.ifs:
            if not I.st.branch(I.truthy(I.ev(c, fr))):
                ok = False
                break
        if ok:
            _iter_concrete(I, gens, fr, k + 1, body)


def eval_comprehension(I: Interp, node, fr: Frame, kind):
    st = I.st
    cf = Frame(fr.module, fr.cls, fr.selfv, fr.finfo, fr, fr.contract, fr.depth)
    gens = node.generators
    first = to_seq(I, I.ev(gens[0].iter, fr))
    if first.concrete is not None and not st.spec_depth and not st.guards:
        if kind == "list":
            res = I.new_list([])
            _iter_concrete(I, gens, cf, 0, lambda f: I.list_append(res, I.to_sv(I.ev(node.elt, f))))
            return res
        if kind == "set":
            res = I.new_set([])
            _iter_concrete(I, gens, cf, 0, lambda f: I.set_add(res, I.to_sv(I.ev(node.elt, f))))
            return res
        res = I.new_dict()
        _iter_concrete(I, gens, cf, 0, lambda f: I.dict_set(res, I.to_sv(I.ev(node.key, f)), I.to_sv(I.ev(node.value, f))))
        return res
    if len(gens) != 1:
        raise Refuse("nested symbolic comprehension")
    g = gens[0]
    seq = first
    n = seq.n
    st.n_fresh += 1
    tag = st.n_fresh
    iv = z3.Int(f"c!{tag}")
    rng = z3.And(iv >= 0, iv < n)
    # evaluate filter and element under the binder (pure)
    fam = None
    st.binder_asms.append([])
    st.spec_depth += 1
    try:
        _bind(I, g.target, seq.item(iv), cf)
        cond = z3.BoolVal(True)
        for c in g.ifs:
            cond = z3.And(cond, I.truthy(I.ev(c, cf)))
        cond = smt.simp(cond)
        st.guards.append(cond)
        try:
            if kind == "dict":
                key = I.to_sv(I.ev(node.key, cf))
                val = I.ev(node.value, cf)
                if type(val).__name__ == "PSpace":
                    # {k(i): <space depending on i> for i in ...}: a uniform family of sub-spaces (python-side)
                    from .interp import PSpace
                    if not z3.is_true(cond):
                        raise Refuse("filtered comprehension of spaces")
                    fam = PSpace("family", n=n, items={"iv": iv, "key": key.t, "sub": val})
                else:
                    val = I.to_sv(val)
                    fam = None
            else:
                elt = I.to_sv(I.ev(node.elt, cf))
        finally:
            st.guards.pop()
    finally:
        st.spec_depth -= 1
        asms = st.binder_asms.pop()
    Kg = st.cfg.get("ground")
    for a in asms:
        if Kg and kind == "dict" and fam is None:
            for i_ in range(Kg):  # bounded mode: the facts about each item, item by item (no quantifier)
                st.assume(z3.Implies(z3.IntVal(i_) < n, z3.substitute(a, (iv, z3.IntVal(i_)))))
        else:
            st.assume(z3.ForAll([iv], z3.Implies(rng, a)))
    if kind == "dict" and fam is not None:
        return fam
    if kind == "list":
        r = st.new_ref(LIST_CID)
        res = SV(smt.mk_ref(r), T.LIST(elt.ty))
        if z3.is_true(cond):
            st.heap["llen"] = z3.Store(st.arr("llen"), r, n)
            st.heap["lel"] = z3.Store(st.arr("lel"), r, smt.index_map(st, iv, elt.t))
            return res
        m = st.fresh("comp_len", smt.I)
        f = z3.Function(f"comp_idx!{tag}", smt.I, smt.I)
        arr = st.fresh("comp_el", smt.ArrIV)
        j, k2 = z3.Ints(f"j!{tag} k!{tag}")
        sub = lambda t, at: z3.substitute(t, (iv, at))  # noqa: E731
        st.assume(z3.And(m >= 0, m <= n))
        st.assume(z3.ForAll([j], z3.Implies(z3.And(j >= 0, j < m), z3.And(f(j) >= 0, f(j) < n, sub(cond, f(j)), z3.Select(arr, j) == sub(elt.t, f(j))))))
        st.assume(z3.ForAll([j, k2], z3.Implies(z3.And(j >= 0, j < k2, k2 < m), f(j) < f(k2))))
        st.assume(z3.ForAll([iv], z3.Implies(z3.And(rng, cond), z3.Exists([j], z3.And(j >= 0, j < m, f(j) == iv)))))
        st.heap["llen"] = z3.Store(st.arr("llen"), r, m)
        st.heap["lel"] = z3.Store(st.arr("lel"), r, arr)
        return res
    if kind == "set":
        r = st.new_ref(SET_CID)
        has = st.fresh("comp_has", smt.ArrVB)
        x = z3.Const(f"x!{tag}", Val)
        st.assume(z3.ForAll([x], z3.Select(has, x) == z3.Exists([iv], z3.And(rng, cond, elt.t == x))))
        sz = st.fresh("comp_sz", smt.I)
        st.assume(z3.And(sz >= 0, sz <= n))
        st.heap["dhas"] = z3.Store(st.arr("dhas"), r, has)
        st.heap["dsz"] = z3.Store(st.arr("dsz"), r, sz)
        return SV(smt.mk_ref(r), T.SET(elt.ty))
    # dict
    K = st.cfg.get("ground")
    if K:
        # bounded mode: at most K source items, so membership and values are finite case distinctions (no quantifier)
        st.assume(n <= K)
        r = st.new_ref(DICT_CID)
        x = z3.Const(f"x!{tag}", Val)
        at = lambda t, i: z3.substitute(t, (iv, z3.IntVal(i)))  # noqa: E731
        live = [smt.simp(z3.And(z3.IntVal(i) < n, at(cond, i))) for i in range(K)]
        has = z3.K(Val, z3.BoolVal(False))  # membership as a finite chain of stores on the all-false array (no lambda)
        for i in range(K):
            has = z3.If(live[i], z3.Store(has, at(key.t, i), z3.BoolVal(True)), has)
        get = st.fresh("comp_get", smt.ArrVV)
        for i in range(K):
            get = z3.If(live[i], z3.Store(get, at(key.t, i), at(val.t, i)), get)
        # size: the number of distinct keys among the items that pass the filter
        firsts = [z3.And(live[i], *[z3.Not(z3.And(live[j_], at(key.t, j_) == at(key.t, i))) for j_ in range(i)]) for i in range(K)]
        sz = smt.simp(z3.Sum(*[z3.If(f_, 1, 0) for f_ in firsts])) if K > 1 else z3.If(firsts[0], 1, 0)
        keys = st.fresh("comp_keys", smt.ArrIV)
        for kq in range(K):
            st.assume(z3.Implies(z3.IntVal(kq) < sz, z3.Select(has, z3.Select(keys, z3.IntVal(kq)))))
            for kq2 in range(kq + 1, K):
                st.assume(z3.Implies(z3.IntVal(kq2) < sz, z3.Select(keys, z3.IntVal(kq)) != z3.Select(keys, z3.IntVal(kq2))))
        st.heap["dhas"] = z3.Store(st.arr("dhas"), r, has)
        st.heap["dget"] = z3.Store(st.arr("dget"), r, get)
        st.heap["dsz"] = z3.Store(st.arr("dsz"), r, sz)
        st.heap["dkeys"] = z3.Store(st.arr("dkeys"), r, keys)
        return SV(smt.mk_ref(r), T.DICT(key.ty, val.ty))
    r = st.new_ref(DICT_CID)
    has = st.fresh("comp_has", smt.ArrVB)
    get = st.fresh("comp_get", smt.ArrVV)
    x = z3.Const(f"x!{tag}", Val)
    st.assume(z3.ForAll([x], z3.Select(has, x) == z3.Exists([iv], z3.And(rng, cond, key.t == x))))
    # the value of a key is the value computed at its LAST occurrence; with injective keys (the common enumerate case)
    # this is simply: forall i. cond(i) => get[key(i)] == val(i) provided no later index has the same key
    i2 = z3.Int(f"c2!{tag}")
    later_same = z3.Exists([i2], z3.And(i2 > iv, i2 < n, z3.substitute(cond, (iv, i2)), z3.substitute(key.t, (iv, i2)) == key.t))
    st.assume(z3.ForAll([iv], z3.Implies(z3.And(rng, cond, z3.Not(later_same)), z3.Select(get, key.t) == val.t)))
    sz = st.fresh("comp_sz", smt.I)
    st.assume(z3.And(sz >= 0, sz <= n))
    st.heap["dhas"] = z3.Store(st.arr("dhas"), r, has)
    st.heap["dget"] = z3.Store(st.arr("dget"), r, get)
    st.heap["dsz"] = z3.Store(st.arr("dsz"), r, sz)
    keys = st.fresh("comp_keys", smt.ArrIV)
    kq = z3.Int(f"kq!{tag}")
    # the keys enumerated by position are keys of the dictionary
    st.assume(z3.ForAll([kq], z3.Implies(z3.And(kq >= 0, kq < sz), z3.Select(has, z3.Select(keys, kq))), patterns=[z3.Select(keys, kq)]))
    st.heap["dkeys"] = z3.Store(st.arr("dkeys"), r, keys)
    return SV(smt.mk_ref(r), T.DICT(key.ty, val.ty))


def eval_next(I: Interp, arg, default, fr: Frame, node=None):
    """next((elt for x in it if cond), default): the element of the first item satisfying the filter, else the default.
    (next() without a default on an exhausted generator raises StopIteration: an obligation.)"""
    st = I.st
    if not (isinstance(arg, PIter) and arg.kind == "genexp"):
        raise Refuse("next() of something other than a generator expression")
    gnode, gfr = arg.a
    if len(gnode.generators) != 1:
        raise Refuse("nested generator in next()")
    g = gnode.generators[0]
    cf = Frame(gfr.module, gfr.cls, gfr.selfv, gfr.finfo, gfr, gfr.contract, gfr.depth)
    seq = to_seq(I, I.ev(g.iter, gfr))
    K = st.cfg.get("unroll")
    if (seq.concrete is not None or K) and not st.spec_depth and not st.guards:
        items = seq.concrete
        if items is None:
            st.assume(seq.n <= K)
            items = []
            for j in range(K):
                if not st.branch(z3.IntVal(j) < seq.n):
                    break
                items.append(seq.item(z3.IntVal(j)))
        for v in items:
            _bind(I, g.target, v, cf)
            ok = True
            for c in g.ifs:
                if not st.branch(I.truthy(I.ev(c, cf))):
                    ok = False
                    break
            if ok:
                return I.ev(gnode.elt, cf)
        if default is None:
            st.oblige("safety", "next_exhausted", z3.BoolVal(False), getattr(node, "lineno", 0))
            from .interp import PathEnd
            raise PathEnd()
        return default
    # symbolic length: position p of the first match (if any)
    st.n_fresh += 1
    iv = z3.Int(f"nx!{st.n_fresh}")
    p = st.fresh("next_pos", smt.I)

    def cond_at(ix):
        st.binder_asms.append([])
        st.spec_depth += 1
        try:
            _bind(I, g.target, seq.item(ix), cf)
            c_ = z3.BoolVal(True)
            for c in g.ifs:
                c_ = z3.And(c_, I.truthy(I.ev(c, cf)))
            elt = I.to_sv(I.ev(gnode.elt, cf))
        finally:
            st.spec_depth -= 1
            asms = st.binder_asms.pop()
        return c_, elt, asms
    c_iv, _e, asms = cond_at(iv)
    for a in asms:
        st.assume(z3.ForAll([iv], z3.Implies(z3.And(iv >= 0, iv < seq.n), a)))
    found = st.branch(z3.Exists([iv], z3.And(iv >= 0, iv < seq.n, c_iv)))
    if found:
        c_p, elt_p, asms_p = cond_at(p)
        st.assume(z3.And(p >= 0, p < seq.n, c_p, *asms_p))
        st.assume(z3.ForAll([iv], z3.Implies(z3.And(iv >= 0, iv < p), z3.Not(c_iv))))
        return elt_p
    if default is None:
        st.oblige("safety", "next_exhausted", z3.BoolVal(False), getattr(node, "lineno", 0))
        from .interp import PathEnd
        raise PathEnd()
    return default


def eval_any_all(I: Interp, which, arg, fr: Frame, node=None):
    st = I.st
    if isinstance(arg, PIter) and arg.kind == "genexp":
        gnode, gfr = arg.a
        if len(gnode.generators) != 1:
            raise Refuse("nested generator in any/all")
        g = gnode.generators[0]
        cf = Frame(gfr.module, gfr.cls, gfr.selfv, gfr.finfo, gfr, gfr.contract, gfr.depth)
        seq = to_seq(I, I.ev(g.iter, gfr))
        if seq.concrete is not None and not st.spec_depth and not st.guards:
            # short-circuit semantics, forking
            for v in seq.concrete:
                _bind(I, g.target, v, cf)
                ok = True
                for c in g.ifs:
                    if not st.branch(I.truthy(I.ev(c, cf))):
                        ok = False
                        break
                if not ok:
                    continue
                t = st.branch(I.truthy(I.ev(gnode.elt, cf)))
                if which == "any" and t:
                    return const(True)
                if which == "all" and not t:
                    return const(False)
            return const(which == "all")
        st.n_fresh += 1
        iv = z3.Int(f"q!{st.n_fresh}")
        rng = z3.And(iv >= 0, iv < seq.n)
        st.binder_asms.append([])
        st.spec_depth += 1
        try:
            _bind(I, g.target, seq.item(iv), cf)
            cond = z3.BoolVal(True)
            for c in g.ifs:
                cond = z3.And(cond, I.truthy(I.ev(c, cf)))
            st.guards.append(cond)
            try:
                body = I.truthy(I.ev(gnode.elt, cf))
            finally:
                st.guards.pop()
        finally:
            st.spec_depth -= 1
            asms = st.binder_asms.pop()
        for a in asms:
            st.assume(z3.ForAll([iv], z3.Implies(rng, a)))
        if which == "all":
            return I.as_bool_sv(z3.ForAll([iv], z3.Implies(z3.And(rng, cond), body)))
        return I.as_bool_sv(z3.Exists([iv], z3.And(rng, cond, body)))
    seq = to_seq(I, arg)
    st.n_fresh += 1
    iv = z3.Int(f"q!{st.n_fresh}")
    rng = z3.And(iv >= 0, iv < seq.n)
    if seq.concrete is not None:
        bs = [I.truthy(v) for v in seq.concrete]
        return I.as_bool_sv((z3.And(*bs) if bs else z3.BoolVal(True)) if which == "all" else (z3.Or(*bs) if bs else z3.BoolVal(False)))
    body = I.truthy(seq.item(iv))
    if which == "all":
        return I.as_bool_sv(z3.ForAll([iv], z3.Implies(rng, body)))
    return I.as_bool_sv(z3.Exists([iv], z3.And(rng, body)))


def eval_sum(I: Interp, args, fr: Frame, node=None):
    arg = args[0]
    if isinstance(arg, PIter) and arg.kind == "genexp":
        gnode, gfr = arg.a
        g = gnode.generators[0]
        cf = Frame(gfr.module, gfr.cls, gfr.selfv, gfr.finfo, gfr, gfr.contract, gfr.depth)
        seq = to_seq(I, I.ev(g.iter, gfr))
        K = I.st.cfg.get("ground")
        if seq.concrete is None and K and len(gnode.generators) == 1:
            # bounded mode: the sequence has at most K elements; the sum is written out
            st = I.st
            st.assume(seq.n <= K)
            total = None
            for j in range(K):
                _bind(I, g.target, seq.item(z3.IntVal(j)), cf)
                st.spec_depth += 1
                try:
                    cond = z3.IntVal(j) < seq.n
                    for c in g.ifs:
                        cond = z3.And(cond, I.truthy(I.ev(c, cf)))
                    st.guards.append(cond)
                    try:
                        x, isr = I.num(I.to_sv(I.ev(gnode.elt, cf)))
                    finally:
                        st.guards.pop()
                finally:
                    st.spec_depth -= 1
                term = z3.If(cond, x, z3.RealVal(0) if isr else z3.IntVal(0))
                total = term if total is None else total + term
            return SV(smt.mk_real(total) if isr else smt.mk_int(total), T.FLOAT if isr else T.INT)
        if seq.concrete is None or len(gnode.generators) != 1:
            raise Refuse("sum over symbolic generator")
        acc = args[1] if len(args) > 1 else const(0)
        for v in seq.concrete:
            _bind(I, g.target, v, cf)
            ok = True
            for c in g.ifs:
                if not I.st.branch(I.truthy(I.ev(c, cf))):
                    ok = False
                    break
            if ok:
                acc = I.binop(ast.Add(), acc, I.ev(gnode.elt, cf))
        return acc
    seq = to_seq(I, arg)
    if seq.concrete is None:
        raise Refuse("sum over symbolic sequence")
    acc = args[1] if len(args) > 1 else const(0)
    for v in seq.concrete:
        acc = I.binop(ast.Add(), acc, v)
    return acc


def build_collection(I: Interp, n, args, kwargs, fr: Frame, node=None):
    st = I.st
    if n == "dict":
        d = I.new_dict()
        if args:
            src = args[0]
            if isinstance(src, SV) and T.strip_opt(src.ty).k == "dict":
                r = st.new_ref(DICT_CID)
                sr = smt.rid(src.t)
                for a in ("dhas", "dget", "dsz", "dkeys"):
                    st.heap[a] = z3.Store(st.arr(a), r, z3.Select(st.arr(a), sr))
                d = SV(smt.mk_ref(r), T.strip_opt(src.ty))
            elif isinstance(src, PIter) and src.kind == "items" and isinstance(src.a[0], SV):
                # dict(m.items()): a copy of m
                m = src.a[0]
                r = st.new_ref(DICT_CID)
                sr = smt.rid(m.t)
                for a in ("dhas", "dget", "dsz", "dkeys"):
                    st.heap[a] = z3.Store(st.arr(a), r, z3.Select(st.arr(a), sr))
                mty = T.strip_opt(m.ty)
                d = SV(smt.mk_ref(r), mty if mty.k == "dict" else T.DICT())
            else:
                raise Refuse("dict(iterable)")
        for k, v in kwargs.items():
            I.dict_set(d, const(k), I.to_sv(v))
        return d
    if not args:
        if n == "list":
            return I.new_list([])
        if n in ("set", "frozenset"):
            return I.new_set([])
        return PTuple([])
    src = args[0]
    if n == "tuple" and isinstance(src, PTuple):
        return src
    if n in ("list", "tuple") and isinstance(src, PIter) and src.kind in ("items", "keys", "values"):
        # list(d.items()) etc.: a snapshot of the mapping at this moment, usable for iteration
        d = src.a[0]
        ty = T.strip_opt(d.ty)
        I.assume_dict_wf(SV(d.t, ty if ty.k in ("dict", "set") else T.DICT()))
        r = smt.rid(d.t)
        if src.kind in ("keys", "values") and n == "list":
            # a real list: element i is the i-th key / the value of the i-th key (insertion order)
            keys_, get_, n_ = z3.Select(st.arr("dkeys"), r), z3.Select(st.arr("dget"), r), smt.simp(z3.Select(st.arr("dsz"), r))
            iv = z3.Int("i!dl")
            nr = st.new_ref(LIST_CID)
            st.heap["llen"] = z3.Store(st.arr("llen"), nr, n_)
            st.heap["lel"] = z3.Store(st.arr("lel"), nr, smt.index_map(st, iv, z3.Select(keys_, iv) if src.kind == "keys" else z3.Select(get_, z3.Select(keys_, iv))))
            ety = (ty.a[0] if ty.a else T.ANY) if src.kind == "keys" else (ty.a[1] if ty.k == "dict" and len(ty.a) > 1 else T.ANY)
            return SV(smt.mk_ref(nr), T.LIST(ety))
        return PIter("snapshot", src.kind, z3.Select(st.arr("dkeys"), r), z3.Select(st.arr("dget"), r),
                     smt.simp(z3.Select(st.arr("dsz"), r)), ty)
    seq = to_seq(I, src)
    if seq.concrete is not None:
        if n == "list":
            return I.new_list([I.to_sv(v) for v in seq.concrete])
        if n == "tuple":
            return PTuple(seq.concrete)
        return I.new_set([I.to_sv(v) for v in seq.concrete])
    if n == "list":
        if isinstance(src, SV) and T.strip_opt(src.ty).k == "list":
            r = st.new_ref(LIST_CID)
            sr = smt.rid(src.t)
            st.heap["llen"] = z3.Store(st.arr("llen"), r, z3.Select(st.arr("llen"), sr))
            st.heap["lel"] = z3.Store(st.arr("lel"), r, z3.Select(st.arr("lel"), sr))
            return SV(smt.mk_ref(r), T.strip_opt(src.ty))
        st.n_fresh += 1
        iv = z3.Int(f"l!{st.n_fresh}")
        st.binder_asms.append([])
        try:
            it = seq.item(iv)
        finally:
            asms = st.binder_asms.pop()
        if isinstance(it, PTuple):
            raise Refuse("list() of symbolic items()")
        for a in asms:
            st.assume(z3.ForAll([iv], z3.Implies(z3.And(iv >= 0, iv < seq.n), a)))
        r = st.new_ref(LIST_CID)
        st.heap["llen"] = z3.Store(st.arr("llen"), r, seq.n)
        st.heap["lel"] = z3.Store(st.arr("lel"), r, smt.index_map(st, iv, it.t))
        return SV(smt.mk_ref(r), T.LIST(it.ty))
    if n == "tuple" and isinstance(src, SV) and T.strip_opt(src.ty).k == "list":
        # an immutable value determined by the list's content (ghost content id): equal contents give equal tuples, which is
        # what dictionary look-ups with tuple keys need; element access on such a tuple is not modelled
        F = z3.Function("tuple_of", Val, Val)
        sid = z3.Select(st.arr("f:$seq"), smt.rid(src.t))
        v = F(sid)
        st.assume(z3.And(smt.is_ref(v), smt.rid(v) < -2000000000))
        st.log.append("tuple(list) modelled as an opaque immutable value that is a function of the list's content")
        return SV(v, T.EXT("ghost"))
    raise Refuse(f"{n}() of symbolic iterable")
