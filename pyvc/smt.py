"""SMT side: the universal value sort, heap array sorts, interned strings, solver helpers.

Encoding assumptions (repeated in every evidence file):
  A1 Python ints are mathematical integers (true of CPython); `&`/`|`/`~` on values in [0,2^32) go through 32-bit vectors.
  A2 floats are reals (no rounding, NaN, inf).
  strings are opaque identifiers (equality only); every literal gets its own id, computed strings are fresh.
"""
from __future__ import annotations

import z3

z3.set_param("model.compact", False)

Val = z3.Datatype("Val")
Val.declare("none")
Val.declare("int", ("ival", z3.IntSort()))
Val.declare("bool", ("bval", z3.BoolSort()))
Val.declare("real", ("rval", z3.RealSort()))
Val.declare("str", ("sval", z3.IntSort()))
Val.declare("ip", ("ipval", z3.IntSort()))
Val.declare("ref", ("rid", z3.IntSort()))
Val = Val.create()

I = z3.IntSort()
B = z3.BoolSort()
R = z3.RealSort()
ArrIV = z3.ArraySort(I, Val)  # field: ref -> Val ; list elements: index -> Val
ArrII = z3.ArraySort(I, I)
ArrIA = z3.ArraySort(I, ArrIV)  # list store: ref -> (index -> Val)
ArrVB = z3.ArraySort(Val, B)
ArrVV = z3.ArraySort(Val, Val)
ArrIVB = z3.ArraySort(I, ArrVB)  # dict membership: ref -> key -> bool
ArrIVV = z3.ArraySort(I, ArrVV)  # dict values: ref -> key -> Val

NONE = Val.none


def mk_int(t):
    return Val.int(t if z3.is_expr(t) else z3.IntVal(t))


def mk_bool(t):
    return Val.bool(t if z3.is_expr(t) else z3.BoolVal(bool(t)))


def mk_real(t):
    return Val.real(t if z3.is_expr(t) else z3.RealVal(t))


def mk_str(t):
    return Val.str(t if z3.is_expr(t) else z3.IntVal(t))


def mk_ip(t):
    return Val.ip(t if z3.is_expr(t) else z3.IntVal(t))


def mk_ref(t):
    return Val.ref(t if z3.is_expr(t) else z3.IntVal(t))


is_none = Val.is_none
is_int = Val.is_int
is_bool = Val.is_bool
is_real = Val.is_real
is_str = Val.is_str
is_ip = Val.is_ip
is_ref = Val.is_ref
ival = Val.ival
bval = Val.bval
rval = Val.rval
sval = Val.sval
ipval = Val.ipval
rid = Val.rid


class Strings:
    """Interning of string literals: '' is 0, literals get 1,2,3...; symbolic strings are unconstrained ints >= 0."""

    def __init__(self):
        self.ids = {"": 0}
        self.rev = {0: ""}

    def id(self, s: str) -> int:
        if s not in self.ids:
            n = len(self.ids)
            self.ids[s] = n
            self.rev[n] = s
        return self.ids[s]

    def lit(self, n):
        return self.rev.get(n)


STR = Strings()

_fresh = [0]


def fresh(prefix, sort):
    _fresh[0] += 1
    return z3.Const(f"{prefix}!{_fresh[0]}", sort)


def reset_fresh():
    _fresh[0] = 0


def simp(t):
    return z3.simplify(t)


def is_lit_true(t):
    return z3.is_true(z3.simplify(t))


def is_lit_false(t):
    return z3.is_false(z3.simplify(t))


def bv32(t):
    return z3.Int2BV(t, 32)


def and_int(a, b):
    return z3.BV2Int(bv32(a) & bv32(b), False)


def or_int(a, b):
    return z3.BV2Int(bv32(a) | bv32(b), False)


def andnot_int(a, b):
    return z3.BV2Int(bv32(a) & ~bv32(b), False)


def guarded_check(s, timeout_ms, *assumptions):
    """solver.check with a hard stop: z3's own timeout is not honoured inside some quantifier/lambda loops, so a
    timer thread interrupts the context shortly after the budget."""
    import threading
    t = threading.Timer(timeout_ms / 1000.0 + 1.5, s.ctx.interrupt)
    t.daemon = True
    t.start()
    try:
        return s.check(*assumptions)
    except z3.Z3Exception:
        return z3.unknown
    finally:
        t.cancel()


def check(assertions, timeout_ms=10000, seed=None):
    """Return ('sat', model) | ('unsat', None) | ('unknown', reason)."""
    s = z3.Solver()
    s.set("timeout", timeout_ms)
    if seed is not None:
        s.set("random_seed", seed)
    for a in assertions:
        s.add(a)
    r = guarded_check(s, timeout_ms)
    if r == z3.sat:
        return "sat", s.model()
    if r == z3.unsat:
        return "unsat", None
    try:
        reason = s.reason_unknown()
    except z3.Z3Exception:
        return "unknown", "interrupted"
    global LAST_CANDIDATE
    LAST_CANDIDATE = None
    if "incomplete" in str(reason) or "quantifier" in str(reason):
        # z3 gave up on the quantifiers but has a model of the ground part: a CANDIDATE counter-model, worth a native replay
        try:
            LAST_CANDIDATE = s.model()
        except z3.Z3Exception:
            LAST_CANDIDATE = None
    return "unknown", reason


LAST_CANDIDATE = None


def to_smt2(assertions) -> str:
    s = z3.Solver()
    for a in assertions:
        s.add(a)
    return s.to_smt2()


def index_map(st, j, body, sort=None):
    """The array  j -> body(j).  In proof mode a lambda; in bounded mode (every container has at most K elements) a finite chain of
    stores over the indices 0..2K on a fresh array, which keeps the refutation queries free of lambdas so that the solver answers
    with models instead of `unknown (incomplete theory array)`."""
    K = st.cfg.get("ground")
    if not K:
        return z3.Lambda([j], body)
    st.n_fresh += 1
    arr = z3.Const(f"imap!{st.n_fresh}", sort if sort is not None else z3.ArraySort(j.sort(), body.sort()))
    for x in range(2 * K + 2):
        arr = z3.Store(arr, z3.IntVal(x), z3.substitute(body, (j, z3.IntVal(x))))
    return arr


def _sexprs(text):
    """Minimal s-expression reader (atoms, |quoted symbols|, strings) -> nested lists of str."""
    out, stack, i, n = [], [], 0, len(text)
    cur = out
    while i < n:
        c = text[i]
        if c.isspace():
            i += 1
        elif c == "(":
            new = []
            cur.append(new)
            stack.append(cur)
            cur = new
            i += 1
        elif c == ")":
            cur = stack.pop()
            i += 1
        elif c == "|":
            j = text.index("|", i + 1)
            cur.append(text[i:j + 1])
            i = j + 1
        elif c == '"':
            j = i + 1
            while True:
                j = text.index('"', j)
                if j + 1 < n and text[j + 1] == '"':
                    j += 2
                    continue
                break
            cur.append(text[i:j + 1])
            i = j + 1
        else:
            j = i
            while j < n and not text[j].isspace() and text[j] not in "()":
                j += 1
            cur.append(text[i:j])
            i = j
    return out


def _unparse(x):
    return x if isinstance(x, str) else "(" + " ".join(_unparse(y) for y in x) + ")"


def cli_guided_model(assertions, timeout_ms=20000):
    """Second opinion for model search: the Debian z3 4.8.12 binary (/usr/bin/z3) often finds a model of array/lambda-heavy
    formulas on which the 5.x library used here runs out of time.  Its model is not trusted: the values it gives to the declared
    constants (arrays as lambdas) are added as extra constraints and the library solver decides the pinned formula itself.
    Returns a z3 model of `assertions` (checked by the library solver) or None."""
    import os, re, subprocess, tempfile
    if not os.path.exists("/usr/bin/z3"):
        return None
    text = to_smt2(assertions)
    header = text[:text.find("(assert")] if "(assert" in text else text
    with tempfile.NamedTemporaryFile("w", suffix=".smt2", delete=False) as f:
        f.write(text.replace("(check-sat)", "(check-sat)\n(get-model)"))
        path = f.name
    try:
        p = subprocess.run(["/usr/bin/z3", f"-T:{max(1, timeout_ms // 1000)}", "model.compact=false", path], capture_output=True, text=True,
                           timeout=timeout_ms / 1000 + 10)
        out = p.stdout
    except Exception:
        return None
    finally:
        os.unlink(path)
    if not out.startswith("sat"):
        return None
    try:
        model = _sexprs(out[3:])[0]
    except Exception:
        return None
    defs = {}
    for d in model:
        if isinstance(d, list) and len(d) == 5 and d[0] == "define-fun":
            defs[d[1]] = (d[2], d[3], d[4])

    def expand(x, depth=0):
        if depth > 40:
            raise ValueError("model too deep")
        if isinstance(x, str):
            return x
        if len(x) == 3 and x[0] == "_" and x[1] == "as-array":
            ps, _srt, body = defs[x[2]]
            return ["lambda", ps, expand(body, depth + 1)]
        return [expand(y, depth + 1) for y in x]
    declared = set(re.findall(r"\(declare-fun (\|[^|]*\||\S+) \(\) ", header))
    pins = []
    for name, (ps, _srt, body) in defs.items():
        if name in declared and ps == []:
            try:
                pins.append(f"(assert (= {name} {_unparse(expand(body))}))")
            except Exception:
                continue
    if not pins:
        return None
    s = z3.Solver()
    s.set("timeout", timeout_ms)
    for a in assertions:
        s.add(a)
    for pin in pins:
        try:
            for a in z3.parse_smt2_string(header + pin):
                s.add(a)
        except z3.Z3Exception:
            continue
    if guarded_check(s, timeout_ms) == z3.sat:
        return s.model()
    return None
