"""SMT side: the universal value sort, heap array sorts, interned strings, solver helpers.

Encoding assumptions (repeated in every evidence file):
  A1 Python ints are mathematical integers (true of CPython); `&`/`|`/`~` on values in [0,2^32) go through 32-bit vectors.
  A2 floats are reals (no rounding, NaN, inf).
  strings are opaque identifiers (equality only); every literal gets its own id, computed strings are fresh.
"""
from __future__ import annotations

import z3

z3.set_param("model.compact", False)

Val = z3.Datatype("Val")
Val.declare("none")
Val.declare("int", ("ival", z3.IntSort()))
Val.declare("bool", ("bval", z3.BoolSort()))
Val.declare("real", ("rval", z3.RealSort()))
Val.declare("str", ("sval", z3.IntSort()))
Val.declare("ip", ("ipval", z3.IntSort()))
Val.declare("ref", ("rid", z3.IntSort()))
Val = Val.create()

I = z3.IntSort()
B = z3.BoolSort()
R = z3.RealSort()
ArrIV = z3.ArraySort(I, Val)  # field: ref -> Val ; list elements: index -> Val
ArrII = z3.ArraySort(I, I)
ArrIA = z3.ArraySort(I, ArrIV)  # list store: ref -> (index -> Val)
ArrVB = z3.ArraySort(Val, B)
ArrVV = z3.ArraySort(Val, Val)
ArrIVB = z3.ArraySort(I, ArrVB)  # dict membership: ref -> key -> bool
ArrIVV = z3.ArraySort(I, ArrVV)  # dict values: ref -> key -> Val

NONE = Val.none


def mk_int(t):
    return Val.int(t if z3.is_expr(t) else z3.IntVal(t))


def mk_bool(t):
    return Val.bool(t if z3.is_expr(t) else z3.BoolVal(bool(t)))


def mk_real(t):
    return Val.real(t if z3.is_expr(t) else z3.RealVal(t))


def mk_str(t):
    return Val.str(t if z3.is_expr(t) else z3.IntVal(t))


def mk_ip(t):
    return Val.ip(t if z3.is_expr(t) else z3.IntVal(t))


def mk_ref(t):
    return Val.ref(t if z3.is_expr(t) else z3.IntVal(t))


is_none = Val.is_none
is_int = Val.is_int
is_bool = Val.is_bool
is_real = Val.is_real
is_str = Val.is_str
is_ip = Val.is_ip
is_ref = Val.is_ref
ival = Val.ival
bval = Val.bval
rval = Val.rval
sval = Val.sval
ipval = Val.ipval
rid = Val.rid


class Strings:
    """Interning of string literals: '' is 0, literals get 1,2,3...; symbolic strings are unconstrained ints >= 0."""

    def __init__(self):
        self.ids = {"": 0}
        self.rev = {0: ""}

    def id(self, s: str) -> int:
        if s not in self.ids:
            n = len(self.ids)
            self.ids[s] = n
            self.rev[n] = s
        return self.ids[s]

    def lit(self, n):
        return self.rev.get(n)


STR = Strings()

_fresh = [0]


def fresh(prefix, sort):
    _fresh[0] += 1
    return z3.Const(f"{prefix}!{_fresh[0]}", sort)


def reset_fresh():
    _fresh[0] = 0


def simp(t):
    return z3.simplify(t)


def is_lit_true(t):
    return z3.is_true(z3.simplify(t))


def is_lit_false(t):
    return z3.is_false(z3.simplify(t))


def bv32(t):
    return z3.Int2BV(t, 32)


def and_int(a, b):
    return z3.BV2Int(bv32(a) & bv32(b), False)


def or_int(a, b):
    return z3.BV2Int(bv32(a) | bv32(b), False)


def andnot_int(a, b):
    return z3.BV2Int(bv32(a) & ~bv32(b), False)


def guarded_check(s, timeout_ms, *assumptions):
    """solver.check with a hard stop: z3's own timeout is not honoured inside some quantifier/lambda loops, so a
    timer thread interrupts the context shortly after the budget."""
    import threading
    t = threading.Timer(timeout_ms / 1000.0 + 1.5, s.ctx.interrupt)
    t.daemon = True
    t.start()
    try:
        return s.check(*assumptions)
    except z3.Z3Exception:
        return z3.unknown
    finally:
        t.cancel()


def check(assertions, timeout_ms=10000, seed=None):
    """Return ('sat', model) | ('unsat', None) | ('unknown', reason)."""
    s = z3.Solver()
    s.set("timeout", timeout_ms)
    if seed is not None:
        s.set("random_seed", seed)
    for a in assertions:
        s.add(a)
    r = guarded_check(s, timeout_ms)
    if r == z3.sat:
        return "sat", s.model()
    if r == z3.unsat:
        return "unsat", None
    try:
        reason = s.reason_unknown()
    except z3.Z3Exception:
        return "unknown", "interrupted"
    global LAST_CANDIDATE
    LAST_CANDIDATE = None
    if "incomplete" in str(reason) or "quantifier" in str(reason):
        # z3 gave up on the quantifiers but has a model of the ground part: a CANDIDATE counter-model, worth a native replay
        try:
            LAST_CANDIDATE = s.model()
        except z3.Z3Exception:
            LAST_CANDIDATE = None
    return "unknown", reason


LAST_CANDIDATE = None


def to_smt2(assertions) -> str:
    s = z3.Solver()
    for a in assertions:
        s.add(a)
    return s.to_smt2()
