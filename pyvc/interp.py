"""Symbolic executor for the Python subset described in DESIGN.md section 1.3.

One *path* at a time: execution is ordinary Python recursion over the real AST; every fork (branch on a symbolic
condition, loop cut, nondeterministic choice) consults a decision trace and registers the untaken alternatives, and the
driver re-executes the function from its entry for each alternative (depth-first).  That keeps the state mutable and
the interpreter small.  Pure sub-expressions (`a if c else b`, `and`/`or`) are merged into formulas instead of forked.
"""
from __future__ import annotations

import ast
from typing import Any, Dict, List, Optional

import z3

from . import smt
from . import types as T
from .contracts import REG, Contract
from .repo import ClassInfo, FuncInfo, ModuleInfo, Repo
from .smt import Val


class Refuse(Exception):
    """The engine met something outside the modelled subset (exit 3, never a verdict)."""


class PathEnd(Exception):
    """This path stops here (infeasible, cut at a loop head, or ended in a reported raise)."""


class ReturnEx(Exception):
    def __init__(self, v):
        self.v = v


class BreakEx(Exception):
    pass


class ContinueEx(Exception):
    pass


class _Line:
    def __init__(self, lineno):
        self.lineno = lineno


class RaiseEx(Exception):
    def __init__(self, exc_name, node=None):
        self.exc_name = exc_name
        self.node = node


# ------------------------------------------------------------------------------------------------ values
NOC = object()

LIST_CID, DICT_CID, SET_CID, TUPLE_CID = -1, -2, -3, -4
ALLOC_BASE = 1_000_000


class SV:
    """Symbolic value: a z3 term of sort Val, a static type hint, and the concrete Python value when known."""

    __slots__ = ("t", "ty", "c")

    def __init__(self, t, ty=None, c=NOC):
        self.t = t
        self.ty = ty or T.ANY
        self.c = c

    def __repr__(self):
        return f"SV({self.t}:{self.ty})"


class PTuple:
    def __init__(self, items):
        self.items = list(items)


class PFunc:  # lambda / nested def closure
    def __init__(self, node, frame, name="<lambda>"):
        self.node = node
        self.frame = frame
        self.name = name


class PBound:
    def __init__(self, selfv, finfo: FuncInfo, exact=False):
        self.selfv = selfv
        self.finfo = finfo
        self.exact = exact  # reached through super(): exactly this implementation, no dynamic dispatch


class PClass:
    def __init__(self, ci: ClassInfo):
        self.ci = ci


class PExt:
    def __init__(self, name):
        self.name = name

    def __repr__(self):
        return f"PExt({self.name})"


class PSpace:
    """gymnasium space built by the code under verification (python-side value; assumed library model):
    kind 'discrete' (n: SV int), 'dict' (items: ordered {python key: PSpace}), 'raw' = a dict display holding spaces."""

    def __init__(self, kind, n=None, items=None):
        self.kind = kind
        self.n = n
        self.items = items if items is not None else {}


class PMod:
    def __init__(self, mi: ModuleInfo):
        self.mi = mi


class PLog:
    pass


class PSuper:
    def __init__(self, after: ClassInfo, selfv):
        self.after = after
        self.selfv = selfv


class PContainerMethod:
    def __init__(self, recv: SV, name: str):
        self.recv = recv
        self.name = name


class PIter:  # result of d.items()/d.values()/d.keys()/enumerate(x)/range(..)/zip
    def __init__(self, kind, *a):
        self.kind = kind
        self.a = a


def const(v) -> SV:
    if v is None:
        return SV(smt.NONE, T.NONE, None)
    if isinstance(v, bool):
        return SV(smt.mk_bool(v), T.BOOL, v)
    if isinstance(v, int):
        return SV(smt.mk_int(v), T.INT, v)
    if isinstance(v, float):
        return SV(smt.mk_real(z3.RealVal(repr(v))), T.FLOAT, v)
    if isinstance(v, str):
        return SV(smt.mk_str(smt.STR.id(v)), T.STR, v)
    raise Refuse(f"constant of type {type(v).__name__}")


LOG_CLASSES = {"SysLog", "AgentLog", "Logger", "_JSONFilter", "PacketCapture", "_SimOutput"}
LOG_NAMES = {"_LOGGER", "logger", "LOGGER"}


class Obligation:
    __slots__ = ("name", "kind", "label", "pc", "goal", "line", "status", "model", "detail", "func", "path", "secs", "backend")

    def __init__(self, name, kind, label, pc, goal, line, func, path):
        self.name, self.kind, self.label, self.pc, self.goal, self.line = name, kind, label, pc, goal, line
        self.func, self.path = func, path
        self.status = None
        self.model = None
        self.detail = ""
        self.secs = 0.0
        self.backend = ""


class Frame:
    def __init__(self, module: ModuleInfo, cls=None, selfv=None, finfo=None, parent=None, contract=None, depth=0):
        self.locals: Dict[str, Any] = {}
        self.module = module
        self.cls = cls
        self.selfv = selfv
        self.finfo = finfo
        self.parent = parent
        self.contract: Optional[Contract] = contract
        self.depth = depth
        self.loop_ord: Dict[int, int] = {}
        self.binders: list = []

    def lookup(self, name):
        f = self
        while f is not None:
            if name in f.locals:
                return f.locals[name]
            f = f.parent
        return None

    def has(self, name):
        f = self
        while f is not None:
            if name in f.locals:
                return True
            f = f.parent
        return False


_quant_cache: Dict[int, bool] = {}


def has_quant(e) -> bool:
    """Does the formula contain a quantifier or lambda?  (Such facts are left out of the fast feasibility solver.)"""
    seen = set()
    stack = [e]
    while stack:
        x = stack.pop()
        i = x.get_id()
        if i in seen:
            continue
        seen.add(i)
        if z3.is_quantifier(x):
            return True
        stack.extend(x.children())
    return False


def _free_consts(e):
    seen, out, stack = set(), [], [e]
    while stack:
        x = stack.pop()
        i = x.get_id()
        if i in seen:
            continue
        seen.add(i)
        if z3.is_const(x) and x.decl().kind() == z3.Z3_OP_UNINTERPRETED:
            out.append(x)
        elif z3.is_var(x):
            out.append(x)
        else:
            stack.extend(x.children())
    return out


class State:
    def __init__(self, trace, fuc_name, cfg):
        self.trace = list(trace)
        self.pos = 0
        self.alternatives: List[list] = []
        self.pc: List[Any] = []
        self.guards: List[Any] = []
        self.heap: Dict[str, Any] = {}
        self.alloc = z3.IntVal(ALLOC_BASE)
        self.alloc_entry = self.alloc
        self.obligations: List[Obligation] = []
        self.touched: set = set()
        self.spec_depth = 0
        self.fuc_name = fuc_name
        self.cfg = cfg
        self.solver = z3.Solver()
        self.solver.set("timeout", cfg.get("branch_timeout_ms", 2000))
        self.log: List[str] = []  # abstractions applied on this path (trusted skips, inlines, contract calls)
        self.events_len = z3.Int("evlen0")
        self.events_len_entry = self.events_len
        self.events: List[tuple] = []  # python-side log of (guard, kind, args) for straight-line reasoning
        self.entry_heap: Dict[str, Any] = {}
        self.old_stack: list = []
        self.n_fresh = 0
        self.path_id = ""
        self.binder_asms: list = []  # stack of lists collecting typing assumptions under quantifier binders
        self.call_records: list = []  # contract-abstracted calls in order (for replay)
        self.fresh_base: list = []
        self.pending_live: list = []
        self.epoch = z3.Int("epoch0")
        self.epoch_entry = self.epoch
        self.epoch_stack: list = []
        self.objs: list = []  # (term, ClassInfo) of object-typed values met so far (candidates when grounding forall_obj)
        self.entry_params: Dict[str, Any] = {}

    # -- fresh names deterministic per path
    def fresh(self, prefix, sort):
        self.n_fresh += 1
        return z3.Const(f"{prefix}!{self.n_fresh}", sort)

    def fresh_val(self, prefix, ty=None) -> SV:
        v = SV(self.fresh(prefix, Val), ty)
        self.assume_wt(v)
        return v

    # -- heap arrays
    def arr(self, key):
        if key not in self.heap:
            sort = {"cls": smt.ArrII, "llen": smt.ArrII, "lel": smt.ArrIA, "dhas": smt.ArrIVB, "dget": smt.ArrIVV,
                    "dsz": smt.ArrII, "dkeys": smt.ArrIA}.get(key, smt.ArrIV)
            a = z3.Const(f"H0_{key}", sort)
            self.heap[key] = a
            self.entry_heap.setdefault(key, a)
            for snap in self.old_stack:
                snap.setdefault(key, a)
            self.assume_array_live(a, key, self.alloc_entry)
        return self.heap[key]

    def assume_array_live(self, a, key, bound):
        """Every reference stored in a heap array that stands for an earlier state points to an object that already
        existed then (no dangling / future references)."""
        r, i = z3.Ints("r!live i!live")
        k = z3.Const("k!live", Val)
        pat = (lambda v_: {}) if self.cfg.get("ground") else (lambda v_: {"patterns": [v_]})  # model search works better without
        if key.startswith("f:") and not key.startswith("f:$"):
            v = z3.Select(a, r)
            ax = z3.ForAll([r], z3.Implies(smt.is_ref(v), z3.Or(smt.rid(v) < bound, r >= bound)), **pat(v))
        elif key in ("lel", "dkeys"):
            v = z3.Select(z3.Select(a, r), i)
            ax = z3.ForAll([r, i], z3.Implies(smt.is_ref(v), z3.Or(smt.rid(v) < bound, r >= bound)), **pat(v))
        elif key == "dget":
            v = z3.Select(z3.Select(a, r), k)
            ax = z3.ForAll([r, k], z3.Implies(smt.is_ref(v), z3.Or(smt.rid(v) < bound, r >= bound)), **pat(v))
        else:
            return
        # (rows at or above the bound belong to objects that did not exist in that state: a callee that allocates fills
        # them with whatever its contract says, including references to still newer objects; the explicit pattern keeps
        # the instantiation as cheap as that of the unrestricted axiom)
        self.pc.append(ax)

    def setarr(self, key, a, ref=None):
        cur = self.arr(key)
        # ghost epoch: counts mutations of objects that existed at function entry (fresh objects do not count)
        if ref is None and z3.is_app(a) and a.decl().kind() == z3.Z3_OP_STORE and z3.eq(a.arg(0), cur):
            ref = a.arg(1)
        if ref is not None:
            self.epoch = smt.simp(z3.If(ref < self.alloc_entry, self.epoch + 1, self.epoch))
        else:
            self.epoch = smt.simp(self.epoch + 1)
        self.heap[key] = a
        self.touched.add(key)
        if key in ("lel", "llen", "dhas", "dget") and "f:$seq" in self.heap:
            # ghost content identity of lists (see seq()): any mutation gives the list a new, unrelated identity
            if ref is not None:
                self.heap["f:$seq"] = z3.Store(self.heap["f:$seq"], ref, self.fresh("seqid", Val))
            else:
                self.heap["f:$seq"] = self.fresh("seqids", smt.ArrIV)

    def getf(self, ref, name):
        return z3.Select(self.arr("f:" + name), ref)

    def setf(self, ref, name, val):
        self.setarr("f:" + name, z3.Store(self.arr("f:" + name), ref, val))

    def new_ref(self, cid):
        r = smt.simp(self.alloc)
        self.alloc = smt.simp(self.alloc + 1)
        self.heap["cls"] = z3.Store(self.arr("cls"), r, z3.IntVal(cid))
        return r

    # -- assumptions / obligations / branching
    def cond(self, c):
        if self.guards:
            return z3.Implies(z3.And(*self.guards) if len(self.guards) > 1 else self.guards[0], c)
        return c

    def assume(self, c):
        if z3.is_true(c):
            return
        if self.binder_asms:
            self.binder_asms[-1].append(self.cond(c))
            return
        c = self.cond(c)
        self.pc.append(c)
        self.sadd(c)

    def sadd(self, c):
        # the incremental solver only prunes infeasible branches; quantified facts are left out (over-approximation:
        # at worst an infeasible path is explored, and its obligations are then discharged from the full pc)
        if not has_quant(c):
            self.solver.add(c)

    def consistent(self, timeout_ms=1500, full=False) -> bool:
        """Vacuity guard.  Cheap form: the quantifier-free part of the path condition; full form: everything."""
        if not full:
            return smt.guarded_check(self.solver, self.cfg.get("branch_timeout_ms", 2000)) != z3.unsat
        s = z3.Solver()
        s.set("timeout", timeout_ms)
        for a in self.pc:
            s.add(a)
        return smt.guarded_check(s, timeout_ms) != z3.unsat

    def assume_wt(self, v: SV):
        tt = T.strip_opt(v.ty)
        if tt.k == "obj" and not self.binder_asms:
            self.objs.append((v.t, tt.a[0]))
        w = self.wt(v.ty, v.t)
        if w is not None:
            self.assume(w)

    def oblige(self, kind, label, goal, line=0):
        if self.spec_depth:
            return
        goal = self.cond(goal)
        g = smt.simp(goal)
        top_ = self.cfg.get("contract")
        if top_ is not None and getattr(top_, "abstract_callees", False) and \
                kind not in (("termination",) if getattr(top_, "decreases", None) else ("post", "frame")):
            # abstracted view (callees without contract have any effect): only the measure obligations (termination view) or the
            # postconditions and frame are generated; everything else about this function is the business of its other contracts.
            # The condition is assumed, as it would be after a successful check.
            if not z3.is_true(g):
                self.pc.append(g)
                self.sadd(g)
            return
        name = f"{self.fuc_name}.{kind}.{label}"
        ob = Obligation(name, kind, label, list(self.pc), g, line, self.fuc_name, self.path_id)
        self.obligations.append(ob)
        if kind == "termination":
            return  # a measure obligation says nothing about the state: nothing to assume afterwards
        if not z3.is_true(g):
            self.pc.append(g)  # assert-then-assume
            self.sadd(g)

    def feasible(self, c) -> bool:
        r = smt.guarded_check(self.solver, self.cfg.get("branch_timeout_ms", 2000), c)
        return r != z3.unsat

    def choose(self, n, conds=None) -> int:
        """Nondeterministic / conditional n-way choice with feasibility pruning; returns chosen index."""
        if self.guards:
            raise Refuse("fork inside a merged (pure) expression")
        if self.pos < len(self.trace):
            k = self.trace[self.pos]
            self.pos += 1
            return k
        D = self.cfg.get("enumerate_depth")
        if D is not None and self.pos >= D:
            # prefix enumeration (work splitting): stop here, the sub-tree below this prefix becomes a task of its own
            self.cfg["_prefixes"].append(list(self.trace[: self.pos]))
            self.cfg["_cut"] = True
            raise PathEnd()
        opts = []
        for k in range(n):
            if conds is None or self.feasible(conds[k]):
                opts.append(k)
        if not opts:
            raise PathEnd()
        for alt in opts[1:]:
            self.alternatives.append(self.trace[: self.pos] + [alt])
        self.trace.append(opts[0])
        self.pos += 1
        return opts[0]

    def branch(self, c) -> bool:
        c = smt.simp(c)
        if z3.is_true(c):
            return True
        if z3.is_false(c):
            return False
        k = self.choose(2, [c, z3.Not(c)])
        if k == 0:
            self.pc.append(c)
            self.sadd(c)
            return True
        self.pc.append(z3.Not(c))
        self.sadd(z3.Not(c))
        return False

    _tags: Dict[str, int] = {}

    def container_tag(self, ty, r):
        """Type-based non-aliasing: a container reached through a field of element type T carries the ghost tag of T,
        so containers of different declared element types are different objects (assumption, listed in evidence)."""
        if ty.k == "tuple" or not ty.a or all(x.k == "any" for x in ty.a):
            return []
        key = repr(ty)
        tid = State._tags.setdefault(key, len(State._tags) + 1)
        if "ctag" not in self.heap:
            self.heap["ctag"] = z3.Const("H0_ctag", smt.ArrII)
            self.entry_heap.setdefault("ctag", self.heap["ctag"])
        return [z3.Select(self.heap["ctag"], r) == tid]

    # -- well-typedness predicate of a Val term for a hint (shallow)
    def subclass_pred(self, cidterm, ci: ClassInfo):
        ids = sorted({c.cid for c in ci.subclasses()})
        if not ids:
            ids = [ci.cid]
        return z3.Or(*[cidterm == i for i in ids]) if len(ids) > 1 else cidterm == ids[0]

    def wt(self, ty: T.Ty, t):
        k = ty.k
        if k == "any" or k == "callable":
            return z3.Implies(smt.is_ref(t), smt.rid(t) < self.alloc)  # every reference read is to a live object
        if k == "int":
            return smt.is_int(t)
        if k == "bool":
            return smt.is_bool(t)
        if k == "float":
            return z3.Or(smt.is_real(t), smt.is_int(t))
        if k == "str":
            return z3.And(smt.is_str(t), smt.sval(t) >= 0)
        if k == "ip":
            return z3.And(smt.is_ip(t), smt.ipval(t) >= 0, smt.ipval(t) < 2**32)
        if k == "none":
            return smt.is_none(t)
        if k == "obj":
            r = smt.rid(t)
            return z3.And(smt.is_ref(t), r > 0, r < self.alloc, self.subclass_pred(z3.Select(self.arr("cls"), r), ty.a[0]))
        if k == "ext":
            return z3.And(smt.is_ref(t), smt.rid(t) > 0, smt.rid(t) < self.alloc)
        if k == "enum":
            ci = ty.a[0]
            ms = enum_member_terms(ci)
            return z3.Or(*[t == m for m in ms.values()]) if ms else None
        if k == "enumunion":  # an attribute that different subclasses declare with different enumerations
            alts = [t == m for ci in ty.a for m in enum_member_terms(ci).values()]
            return z3.Or(*alts) if alts else None
        if k == "opt":
            inner = self.wt(ty.a[0], t)
            return z3.Or(smt.is_none(t), inner) if inner is not None else None
        if k in ("list", "tuple"):
            r = smt.rid(t)
            cid = LIST_CID if k == "list" else TUPLE_CID
            small = self.container_tag(ty, r)
            if k == "tuple" and ty.a:
                small = small + [z3.Select(self.arr("llen"), r) == len(ty.a)]
            return z3.And(smt.is_ref(t), r > 0, r < self.alloc, z3.Select(self.arr("llen"), r) >= 0,
                          z3.Select(self.arr("cls"), r) == cid, *small)
        if k in ("dict", "set"):
            r = smt.rid(t)
            cid = DICT_CID if k == "dict" else SET_CID
            small = self.container_tag(ty, r)
            return z3.And(smt.is_ref(t), r > 0, r < self.alloc, z3.Select(self.arr("dsz"), r) >= 0,
                          z3.Select(self.arr("cls"), r) == cid, *small)
        return None


_enum_cache: Dict[int, Dict[str, Any]] = {}


def enum_member_terms(ci: ClassInfo) -> Dict[str, Any]:
    """Enum members as Val terms: IntEnum -> int(value); other enums -> ref(-(cid*1000+idx)) (identity semantics)."""
    if ci.cid not in _enum_cache:
        out = {}
        for idx, (n, v) in enumerate(ci.enum_members().items()):
            if ci.is_int_enum and isinstance(v, int):
                out[n] = smt.mk_int(v)
            else:
                out[n] = smt.mk_ref(-(ci.cid * 1000 + idx))
        _enum_cache[ci.cid] = out
    return _enum_cache[ci.cid]


def enum_value_sv(ci: ClassInfo, name) -> SV:
    return SV(enum_member_terms(ci)[name], T.ENUM(ci), ("enum", ci.name, name))


# ------------------------------------------------------------------------------------------------ interpreter
PURE_BUILTINS = {"len", "isinstance", "int", "str", "bool", "float", "min", "max", "abs", "old", "implies", "iff",
                 "forall", "exists", "forall_obj", "exists_obj", "type", "hasattr", "getattr", "IPv4Address", "ite", "bit", "fresh", "seq", "epoch", "unchanged", "n_events", "plen", "in_net", "valid_mask", "dict_key", "dict_val", "event_kind", "event_arg", "ev", "same_dict", "same_dict_except", "psum", "cast", "member", "is_enum_value"}


class Interp:
    def __init__(self, st: State):
        self.st = st
        self.repo = Repo.get()

    # ---------------------------------------------------------------- helpers
    def truthy(self, v) -> Any:
        """z3 Bool for Python truthiness of a value."""
        st = self.st
        if isinstance(v, PTuple):
            return z3.BoolVal(len(v.items) > 0)
        if isinstance(v, (PFunc, PBound, PClass, PExt, PMod, PLog)):
            return z3.BoolVal(True)
        if not isinstance(v, SV):
            raise Refuse(f"truthiness of {type(v).__name__}")
        if v.c is not NOC and not isinstance(v.c, tuple):
            return z3.BoolVal(bool(v.c))
        return self._truthy_t(v.t, v.ty)

    def _truthy_t(self, t, ty):
        st = self.st
        k = ty.k
        if k == "bool":
            return smt.bval(t)
        if k == "int":
            return smt.ival(t) != 0
        if k == "float":
            return z3.If(smt.is_int(t), smt.ival(t) != 0, smt.rval(t) != 0)
        if k == "str":
            return smt.sval(t) != 0
        if k == "none":
            return z3.BoolVal(False)
        if k in ("ip", "callable", "ext"):
            return z3.BoolVal(True)
        if k == "enum":
            ci = ty.a[0]
            if ci.is_int_enum:
                return smt.ival(t) != 0
            return z3.BoolVal(True)
        if k == "obj":
            ci = ty.a[0]
            if ci.find_method("__bool__") or ci.find_method("__len__"):
                raise Refuse(f"truthiness of {ci.name} with __bool__/__len__")
            for sub in ci.subclasses():
                if "__bool__" in sub.methods or "__len__" in sub.methods:
                    raise Refuse(f"truthiness of {ci.name}: subclass {sub.name} defines __bool__/__len__")
            return z3.BoolVal(True)
        if k == "opt":
            return z3.And(z3.Not(smt.is_none(t)), self._truthy_t(t, ty.a[0]))
        if k in ("list", "tuple"):
            return z3.Select(st.arr("llen"), smt.rid(t)) > 0
        if k in ("dict", "set"):
            return z3.Select(st.arr("dsz"), smt.rid(t)) > 0
        # generic
        r = smt.rid(t)
        cid = z3.Select(st.arr("cls"), r)
        return z3.If(smt.is_none(t), False,
               z3.If(smt.is_bool(t), smt.bval(t),
               z3.If(smt.is_int(t), smt.ival(t) != 0,
               z3.If(smt.is_real(t), smt.rval(t) != 0,
               z3.If(smt.is_str(t), smt.sval(t) != 0,
               z3.If(smt.is_ip(t), True,
               z3.If(z3.Or(cid == LIST_CID, cid == TUPLE_CID), z3.Select(st.arr("llen"), r) > 0,
               z3.If(z3.Or(cid == DICT_CID, cid == SET_CID), z3.Select(st.arr("dsz"), r) > 0, True))))))))

    def as_bool_sv(self, b) -> SV:
        b = smt.simp(b) if z3.is_expr(b) else z3.BoolVal(b)
        if z3.is_true(b):
            return const(True)
        if z3.is_false(b):
            return const(False)
        return SV(smt.mk_bool(b), T.BOOL)

    def to_sv(self, v) -> SV:
        """Materialise python-side structures as heap values."""
        if isinstance(v, SV):
            return v
        if isinstance(v, PTuple):
            st = self.st
            r = st.new_ref(TUPLE_CID)
            arr = z3.K(smt.I, smt.NONE)
            tys = []
            for i, it in enumerate(v.items):
                s = self.to_sv(it)
                arr = z3.Store(arr, i, s.t)
                tys.append(s.ty)
            st.heap["llen"] = z3.Store(st.arr("llen"), r, len(v.items))
            st.heap["lel"] = z3.Store(st.arr("lel"), r, arr)
            return SV(smt.mk_ref(r), T.TUPLE(*tys))
        if isinstance(v, PClass):
            return SV(smt.mk_ref(-(10**8 + v.ci.cid)), T.ANY, ("class", v.ci.name))
        if isinstance(v, PLog):
            return SV(smt.mk_ref(self.st.new_ref(-8)), T.ANY, ("log",))
        if isinstance(v, (PFunc, PBound, PExt)):
            # callables stored in the heap: opaque fresh reference remembered python-side
            st = self.st
            key = id(v)
            tbl = st.cfg.setdefault("_callables", {})
            r = st.new_ref(-9)
            tbl[str(r)] = v
            return SV(smt.mk_ref(r), T.CALLABLE, ("callable", str(r)))
        raise Refuse(f"cannot store {type(v).__name__} in the heap")

    def num(self, v: SV):
        """(z3 arithmetic term, is_real)"""
        if not isinstance(v, SV):
            raise Refuse(f"arithmetic on {type(v).__name__}")
        k = v.ty.k
        if k == "int":
            return smt.ival(v.t), False
        if k == "bool":
            return z3.If(smt.bval(v.t), 1, 0), False
        if k == "float":
            return z3.If(smt.is_int(v.t), z3.ToReal(smt.ival(v.t)), smt.rval(v.t)), True
        if k == "enum" and v.ty.a[0].is_int_enum:
            return smt.ival(v.t), False
        if k == "opt":
            return self.num(SV(v.t, v.ty.a[0]))
        if k == "any":
            t = v.t
            self.st.oblige("safety", "arith_on_nonnumber", z3.Or(smt.is_int(t), smt.is_real(t), smt.is_bool(t)))
            return z3.If(smt.is_int(t), z3.ToReal(smt.ival(t)), z3.If(smt.is_bool(t), z3.If(smt.bval(t), z3.RealVal(1), z3.RealVal(0)), smt.rval(t))), True
        raise Refuse(f"arithmetic on value of type {v.ty}")

    def eq(self, a, b):
        """z3 Bool for Python `a == b`."""
        if isinstance(a, PTuple) or isinstance(b, PTuple):
            if isinstance(a, PTuple) and isinstance(b, PTuple):
                if len(a.items) != len(b.items):
                    return z3.BoolVal(False)
                return z3.And(*[self.eq(x, y) for x, y in zip(a.items, b.items)]) if a.items else z3.BoolVal(True)
            raise Refuse("== between tuple and non-tuple")
        if isinstance(a, PClass) and isinstance(b, PClass):
            return z3.BoolVal(a.ci is b.ci)
        if not (isinstance(a, SV) and isinstance(b, SV)):
            raise Refuse(f"== on {type(a).__name__}/{type(b).__name__}")
        ka, kb = T.strip_opt(a.ty).k, T.strip_opt(b.ty).k
        numk = ("int", "float", "bool")
        if ka in numk and kb in numk and ka != kb and a.ty.k != "opt" and b.ty.k != "opt":
            x, _ = self.num(a)
            y, _ = self.num(b)
            return x == y
        for v in (a, b):
            kk = T.strip_opt(v.ty).k
            if kk == "obj":
                ci = T.strip_opt(v.ty).a[0]
                if ci.find_method("__eq__") is None and ci.is_pydantic:
                    other = b if v is a else a
                    if T.strip_opt(other.ty).k in ("obj", "any"):
                        # pydantic field-wise equality: identical refs are equal, distinct refs unknown
                        fb = self.st.fresh("pyd_eq", smt.B)
                        self.st.log.append("pydantic == modelled as identity-or-unknown")
                        return z3.Or(a.t == b.t, z3.And(smt.is_ref(a.t), smt.is_ref(b.t), fb))
                elif ci.find_method("__eq__") is not None:
                    raise Refuse(f"== on {ci.name} with custom __eq__")
            if kk in ("list", "dict", "set", "tuple"):
                other = b if v is a else a
                if T.strip_opt(other.ty).k in ("list", "dict", "set", "tuple", "any"):
                    # list == list where one side has a literal length (a display): same length, element-wise equal scalars
                    if kk == "list" and T.strip_opt(other.ty).k in ("list", "any"):
                        for x_, y_ in ((v, other), (other, v)):
                            if T.strip_opt(x_.ty).k != "list":
                                continue
                            n_ = self.list_len(x_)
                            if z3.is_int_value(n_) and n_.as_long() <= 16:
                                ety = self.list_elty(x_)
                                if T.strip_opt(ety).k in ("list", "dict", "set", "tuple", "obj"):
                                    break
                                oth = SV(y_.t, T.LIST(T.ANY)) if T.strip_opt(y_.ty).k == "any" else y_
                                conj = [smt.is_ref(y_.t), self.list_len(oth) == n_]
                                if T.strip_opt(y_.ty).k == "any":
                                    conj.append(z3.Select(self.st.arr("cls"), smt.rid(y_.t)) == LIST_CID)
                                for i_ in range(n_.as_long()):
                                    conj.append(self.list_get(x_, z3.IntVal(i_)).t == self.list_get(oth, z3.IntVal(i_)).t)
                                return z3.And(*conj)
                    raise Refuse("== on containers")
        if ka == "any" or kb == "any":
            na = z3.Or(smt.is_int(a.t), smt.is_real(a.t), smt.is_bool(a.t))
            nb = z3.Or(smt.is_int(b.t), smt.is_real(b.t), smt.is_bool(b.t))
            nv = lambda t: z3.If(smt.is_int(t), z3.ToReal(smt.ival(t)), z3.If(smt.is_bool(t), z3.If(smt.bval(t), z3.RealVal(1), z3.RealVal(0)), smt.rval(t)))  # noqa
            if (ka in numk or ka == "any") and (kb in numk or kb == "any"):
                return z3.Or(a.t == b.t, z3.And(na, nb, nv(a.t) == nv(b.t)))
        return a.t == b.t

    def safety(self, exc: str, label: str, cond, line=0):
        """A Python-level failure condition (IndexError/KeyError/...): when an enclosing try catches it or the
        function's contract lists it under `raises`, it becomes a real control-flow edge; otherwise an obligation."""
        st = self.st
        if st.spec_depth:
            return
        catching = any(exc in names or "Exception" in names for names in st.cfg.get("_catch", []))
        top = st.cfg.get("contract")
        listed = top is not None and exc in top.raises
        if (catching or listed) and not st.guards:
            if not st.branch(cond):
                raise RaiseEx(exc, _Line(line))
            return
        st.oblige("safety", label, cond, line)

    # ---------------------------------------------------------------- name resolution
    def resolve_global(self, name, fr: Frame):
        if name in LOG_NAMES:
            return PLog()
        r = fr.module.resolve_name(name)
        return self.wrap_resolved(r, name, fr)

    def wrap_resolved(self, r, name, fr):
        if r is None:
            return None
        if isinstance(r, ClassInfo):
            return PClass(r)
        if isinstance(r, FuncInfo):
            return PBound(None, r)
        if isinstance(r, ModuleInfo):
            return PMod(r)
        if isinstance(r, tuple) and r[0] == "ext":
            return PExt(r[1])
        if isinstance(r, tuple) and r[0] == "assign":
            mod, node = r[1], r[2]
            mfr = Frame(mod)
            if isinstance(node, ast.Call) and isinstance(node.func, ast.Name) and node.func.id in ("getLogger", "TypeAdapter"):
                return PLog() if node.func.id == "getLogger" else PExt("TypeAdapter")
            if isinstance(node, ast.Call) and isinstance(node.func, ast.Name) and node.func.id == "object" and not node.args:
                # module-level sentinel `X = object()`: one fixed object, distinct from every value and every other sentinel
                return SV(smt.mk_ref(-(900000000 + smt.STR.id(f"sentinel:{mod.name}.{name}"))), T.ANY)
            return self.ev(node, mfr)
        raise Refuse(f"cannot resolve global {name}")

    def ev_name(self, node: ast.Name, fr: Frame):
        n = node.id
        if fr.has(n):
            v = fr.lookup(n)
            if v is None:
                raise Refuse(f"unbound local {n}")
            return v
        if n == "result" and self.st.spec_depth:
            raise Refuse("`result` used where no result is bound")
        g = self.resolve_global(n, fr)
        if g is not None:
            return g
        if n in ("True", "False", "None"):
            return const({"True": True, "False": False, "None": None}[n])
        if self.st.spec_depth and n not in BUILTIN_TYPES and n not in BUILTIN_FUNCS:
            # contracts may name any class of the repository, whether or not the function's module imports it
            try:
                return PClass(self.repo.class_by_name(n))
            except KeyError:
                pass
            if n == "IPv4Address":
                return PExt("ipaddress.IPv4Address")
        if n in BUILTIN_TYPES:
            return PExt("builtins." + n)
        if n in BUILTIN_EXC:
            return PExt("builtins." + n)
        if n in BUILTIN_FUNCS:
            return PExt("builtins." + n)
        raise Refuse(f"unknown name {n} (line {getattr(node, 'lineno', '?')} in {fr.module.relpath})")

    # ---------------------------------------------------------------- expressions
    def is_pure(self, node, fr) -> bool:
        """Syntactic purity: safe to evaluate both arms and merge."""
        for n in ast.walk(node):
            if isinstance(n, ast.Call):
                f = n.func
                if isinstance(f, ast.Name) and (f.id in PURE_BUILTINS or f.id in REG.specs):
                    continue
                if isinstance(f, ast.Attribute) and f.attr in ("get", "lower", "upper", "keys", "values", "items"):
                    continue
                return False
            if isinstance(n, (ast.NamedExpr, ast.Await, ast.Yield, ast.YieldFrom, ast.ListComp, ast.DictComp, ast.SetComp,
                              ast.GeneratorExp, ast.Lambda)):
                return False
            if isinstance(n, ast.Attribute) and not self.attr_is_plain(n, fr):
                return False
        return True

    def attr_is_plain(self, n: ast.Attribute, fr) -> bool:
        # a property access may hide a call; we only know statically when the attr name is a property anywhere
        return n.attr not in self.property_names() or n.attr in self.simple_property_names()

    _prop_names = None
    _simple_prop_names = None

    def property_names(self):
        if Interp._prop_names is None:
            s, simple = set(), set()
            complex_ = set()
            for c in self.repo.all_classes():
                for m in c.methods.values():
                    if m.is_property:
                        s.add(m.name)
                        if single_return_expr(m.node) is not None:
                            simple.add(m.name)
                        else:
                            complex_.add(m.name)
            Interp._prop_names = s
            Interp._simple_prop_names = simple - complex_
        return Interp._prop_names

    def simple_property_names(self):
        self.property_names()
        return Interp._simple_prop_names

    def ev(self, node, fr: Frame):
        m = getattr(self, "ev_" + type(node).__name__, None)
        if m is None:
            raise Refuse(f"expression {type(node).__name__} at line {getattr(node, 'lineno', '?')} in {fr.module.relpath}")
        return m(node, fr)

    def ev_Constant(self, node, fr):
        if node.value is Ellipsis:
            return const(None)
        return const(node.value)

    def ev_Name(self, node, fr):
        return self.ev_name(node, fr)

    def ev_JoinedStr(self, node, fr):
        # f-string: opaque fresh string.  When every embedded expression is a pure read, the parts are kept
        # python-side so that library models (IPv4Network(f"{a}/{m}")) can see them; they never influence the string.
        v = self.st.fresh_val("fstr", T.STR)
        # the text is opaque, but an embedded `sep.join(xs)` can raise (TypeError on non-string items): those calls are evaluated for
        # their obligations
        if not self.st.spec_depth:
            for sub in ast.walk(node):
                if isinstance(sub, ast.Call) and isinstance(sub.func, ast.Attribute) and sub.func.attr == "join" and len(sub.args) == 1 \
                        and isinstance(sub.func.value, ast.Constant) and isinstance(sub.func.value.value, str) and self.is_pure(sub.args[0], fr):
                    try:
                        self.ev(sub, fr)
                    except Refuse:
                        pass
        try:
            parts = []
            for p in node.values:
                if isinstance(p, ast.Constant):
                    parts.append(p.value)
                elif isinstance(p, ast.FormattedValue) and self.is_pure(p.value, fr) and len(node.values) <= 3:
                    self.st.spec_depth += 1
                    try:
                        parts.append(self.ev(p.value, fr))
                    finally:
                        self.st.spec_depth -= 1
                else:
                    parts = None
                    break
            if parts is not None and len(node.values) <= 3:
                v.c = ("fstr", parts)
        except (Refuse, PathEnd):
            pass
        return v

    def ev_Tuple(self, node, fr):
        return PTuple([self.ev(e, fr) for e in node.elts])

    def ev_List(self, node, fr):
        items = []
        for e in node.elts:
            if isinstance(e, ast.Starred):
                raise Refuse("starred list element")
            items.append(self.to_sv(self.ev(e, fr)))
        return self.new_list(items)

    def ev_Set(self, node, fr):
        items = [self.to_sv(self.ev(e, fr)) for e in node.elts]
        return self.new_set(items)

    def ev_Dict(self, node, fr):
        if node.values and all(k is not None for k in node.keys):
            # a display whose values are gymnasium spaces stays a python-side mapping (literal keys only)
            first = self.ev(node.values[0], fr)
            if isinstance(first, PSpace):
                items = {}
                for j, (k, v) in enumerate(zip(node.keys, node.values)):
                    kv = self.ev(k, fr)
                    vv = first if j == 0 else self.ev(v, fr)
                    if not isinstance(kv, SV) or kv.c is NOC or isinstance(kv.c, tuple) or not isinstance(vv, PSpace):
                        raise Refuse("dict display of spaces with a computed key")
                    items[kv.c] = vv
                return PSpace("raw", items=items)
            return self._ev_dict_heap(node, fr, first)
        return self._ev_dict_heap(node, fr, None)

    def _ev_dict_heap(self, node, fr, first):
        d = self.new_dict()
        for j, (k, v) in enumerate(zip(node.keys, node.values)):
            if k is None:
                # {**m}: every entry of m is (re)inserted; later insertions win.  Membership and values are exact, the
                # resulting iteration order is left unconstrained (fresh key sequence, well-formed by assumption)
                m = self.ev(v, fr)
                if not isinstance(m, SV) or T.strip_opt(m.ty).k != "dict":
                    raise Refuse("dict unpacking of a non-dict")
                st = self.st
                r, mr = smt.rid(d.t), smt.rid(m.t)
                has_d, has_m = z3.Select(st.arr("dhas"), r), z3.Select(st.arr("dhas"), mr)
                get_d, get_m = z3.Select(st.arr("dget"), r), z3.Select(st.arr("dget"), mr)
                x = z3.Const("x!merge", Val)
                st.heap["dhas"] = z3.Store(st.arr("dhas"), r, z3.Lambda([x], z3.Or(z3.Select(has_d, x), z3.Select(has_m, x))))
                st.heap["dget"] = z3.Store(st.arr("dget"), r, z3.Lambda([x], z3.If(z3.Select(has_m, x), z3.Select(get_m, x), z3.Select(get_d, x))))
                n_ = st.fresh("merge_sz", smt.I)
                st.assume(z3.And(n_ >= z3.Select(st.arr("dsz"), r), n_ >= z3.Select(st.arr("dsz"), mr), n_ <= z3.Select(st.arr("dsz"), r) + z3.Select(st.arr("dsz"), mr)))
                st.heap["dsz"] = z3.Store(st.arr("dsz"), r, n_)
                st.heap["dkeys"] = z3.Store(st.arr("dkeys"), r, st.fresh("merge_keys", smt.ArrIV))
                st.heap["f:$seq"] = z3.Store(st.arr("f:$seq"), r, st.fresh("seqid", Val))
                if d.ty.k == "dict" and all(a.k == "any" for a in d.ty.a):
                    d.ty = T.strip_opt(m.ty)
                d.c = NOC
                continue
            kv = self.to_sv(self.ev(k, fr))
            vv = self.to_sv(first if (j == 0 and first is not None) else self.ev(v, fr))
            self.dict_set(d, kv, vv)
        return d

    def new_list(self, items: List[SV], ety=None) -> SV:
        st = self.st
        r = st.new_ref(LIST_CID)
        arr = z3.K(smt.I, smt.NONE)
        ty = ety
        for i, s in enumerate(items):
            arr = z3.Store(arr, i, s.t)
            ty = s.ty if ty is None else T.join(ty, s.ty)
        st.heap["llen"] = z3.Store(st.arr("llen"), r, len(items))
        st.heap["lel"] = z3.Store(st.arr("lel"), r, arr)
        return SV(smt.mk_ref(r), T.LIST(ty or T.ANY))

    def new_dict(self, kty=None, vty=None) -> SV:
        st = self.st
        r = st.new_ref(DICT_CID)
        st.heap["dhas"] = z3.Store(st.arr("dhas"), r, z3.K(Val, z3.BoolVal(False)))
        st.heap["dget"] = z3.Store(st.arr("dget"), r, z3.K(Val, smt.NONE))
        st.heap["dsz"] = z3.Store(st.arr("dsz"), r, 0)
        st.heap["dkeys"] = z3.Store(st.arr("dkeys"), r, z3.K(smt.I, smt.NONE))
        st.heap["f:$seq"] = z3.Store(st.arr("f:$seq"), r, smt.mk_str(smt.STR.id("$EMPTY_DICT")))
        return SV(smt.mk_ref(r), T.DICT(kty or T.ANY, vty or T.ANY), ("newdict",))

    def new_set(self, items, ety=None) -> SV:
        st = self.st
        r = st.new_ref(SET_CID)
        st.heap["dhas"] = z3.Store(st.arr("dhas"), r, z3.K(Val, z3.BoolVal(False)))
        st.heap["dsz"] = z3.Store(st.arr("dsz"), r, 0)
        s = SV(smt.mk_ref(r), T.SET(ety or T.ANY))
        for it in items:
            self.set_add(s, it)
        return s

    # dict primitives
    def dict_has(self, d: SV, k: SV):
        return z3.Select(z3.Select(self.st.arr("dhas"), smt.rid(d.t)), k.t)

    def dict_get(self, d: SV, k: SV) -> SV:
        vty = T.strip_opt(d.ty).a[1] if T.strip_opt(d.ty).k == "dict" and len(T.strip_opt(d.ty).a) > 1 else T.ANY
        return SV(z3.Select(z3.Select(self.st.arr("dget"), smt.rid(d.t)), k.t), vty)

    def dict_set(self, d: SV, k: SV, v: SV):
        st = self.st
        if st.cfg.get("ground") and T.strip_opt(d.ty).k in ("dict", "set") and not st.spec_depth:
            # model search: without the data-structure invariant the solver may choose a "ghost member" (membership true, size 0) for a
            # dictionary that is only ever written, and the store below would then not grow it
            # (only for dictionaries that existed at entry: a record-like dictionary built by the code or a callee may have more
            # than K literal keys, and the bounded invariant would make the path vacuous)
            st.guards.append(smt.rid(d.t) < st.alloc_entry)
            try:
                self.assume_dict_wf(d)
            finally:
                st.guards.pop()
        r = smt.rid(d.t)
        has = z3.Select(st.arr("dhas"), r)
        was = z3.Select(has, k.t)
        sz = z3.Select(st.arr("dsz"), r)
        # insertion order: a new key is appended at position dsz
        keys = z3.Select(st.arr("dkeys"), r)
        st.setarr("dkeys", z3.Store(st.arr("dkeys"), r, z3.If(was, keys, z3.Store(keys, sz, k.t))), r)
        st.setarr("dsz", z3.Store(st.arr("dsz"), r, smt.simp(z3.If(was, sz, sz + 1))))
        st.setarr("dhas", z3.Store(st.arr("dhas"), r, z3.Store(has, k.t, True)))
        st.setarr("dget", z3.Store(st.arr("dget"), r, z3.Store(z3.Select(st.arr("dget"), r), k.t, v.t)))
        if d.ty.k == "dict" and isinstance(d.c, tuple) and d.c[0] == "newdict":
            # the hint of a dict display is the join of its entries' hints; "no entry yet" must not be confused with a
            # join that already widened to `any` (a later entry would narrow it again and typing assumptions on reads
            # of earlier entries would be contradictory -- vacuous proofs)
            first = len(d.c) == 1
            d.c = ("newdict", "seen")
            d.ty = T.DICT(k.ty if first and d.ty.a[0].k == "any" else T.join(d.ty.a[0], k.ty),
                          v.ty if first and d.ty.a[1].k == "any" else T.join(d.ty.a[1], v.ty))

    def assume_dict_wf(self, d: SV):
        """Data-structure invariant of Python dicts/sets in the (keys sequence, membership) model: the first `size`
        entries of the key sequence are pairwise distinct, are members, and every member occurs among them."""
        st = self.st
        r = smt.rid(d.t)
        n = smt.simp(z3.Select(st.arr("dsz"), r))
        keys = smt.simp(z3.Select(st.arr("dkeys"), r))
        has = smt.simp(z3.Select(st.arr("dhas"), r))
        ck = (keys.get_id(), has.get_id(), n.get_id())
        cache = st.cfg.setdefault("_wf_cache", set())
        if ck in cache:
            return
        # remembered as "already stated" only when stated unconditionally: under a guard (a conditional expression, an expanded
        # quantifier body `j < len(d) => ...`) the facts hold only there, and a later unguarded use must state them again
        if not st.guards:
            cache.add(ck)
        hoist = None
        if st.binder_asms:
            # inside a quantifier body: facts about a dict that does not depend on the bound variables are stated
            # outside the binder; otherwise they are closed over the binder like typing assumptions
            free = {str(v) for v in _free_consts(r)}
            if not any("!q" in v or "!o" in v or v.startswith("c!") or v.startswith("q!") for v in free):
                hoist = st.binder_asms
                st.binder_asms = []
        K = st.cfg.get("ground")
        if K:
            st.assume(n <= K)
            for x in range(K):
                st.assume(z3.Implies(x < n, z3.Select(has, z3.Select(keys, x))))
                for y in range(x + 1, K):
                    st.assume(z3.Implies(y < n, z3.Select(keys, x) != z3.Select(keys, y)))
            kq = z3.Const(f"k!wf{len(cache)}", Val)
            st.assume(z3.ForAll([kq], z3.Implies(z3.Select(has, kq), z3.Or(*[z3.And(x < n, z3.Select(keys, x) == kq) for x in range(K)]))))
            if hoist is not None:
                st.binder_asms = hoist
            return
        a, b = z3.Ints(f"a!wf{len(cache)} b!wf{len(cache)}")
        kq = z3.Const(f"k!wf{len(cache)}", Val)
        pos = z3.Function(f"dpos!{len(cache)}_{st.n_fresh}", Val, smt.I)
        st.n_fresh += 1
        st.assume(z3.ForAll([a], z3.Implies(z3.And(a >= 0, a < n), z3.Select(has, z3.Select(keys, a)))))
        st.assume(z3.ForAll([a, b], z3.Implies(z3.And(a >= 0, a < b, b < n), z3.Select(keys, a) != z3.Select(keys, b))))
        st.assume(z3.ForAll([kq], z3.Implies(z3.Select(has, kq), z3.And(pos(kq) >= 0, pos(kq) < n, z3.Select(keys, pos(kq)) == kq))))
        st.assume(n >= 0)
        if hoist is not None:
            st.binder_asms = hoist

    def dict_del(self, d: SV, k: SV):
        st = self.st
        self.assume_dict_wf(d)
        r = smt.rid(d.t)
        has = z3.Select(st.arr("dhas"), r)
        was = z3.Select(has, k.t)
        sz = z3.Select(st.arr("dsz"), r)
        keys = z3.Select(st.arr("dkeys"), r)
        # order-preserving removal: the key sits at some position p; later keys move up by one
        p = st.fresh("delpos", smt.I)
        st.assume(z3.Implies(was, z3.And(p >= 0, p < sz, z3.Select(keys, p) == k.t)))
        j = z3.Int("j!del")
        Kg = st.cfg.get("ground")
        if Kg:
            # bounded mode: at most Kg keys, so the shift is a finite chain of stores (no lambda: the solver returns models, not `unknown`)
            shifted = keys
            for x_ in range(Kg + 1):
                shifted = z3.Store(shifted, x_, z3.If(x_ < p, z3.Select(keys, x_), z3.Select(keys, x_ + 1)))
        else:
            shifted = z3.Lambda([j], z3.If(j < p, z3.Select(keys, j), z3.Select(keys, j + 1)))
        st.setarr("dkeys", z3.Store(st.arr("dkeys"), r, z3.If(was, shifted, keys)), r)
        st.setarr("dsz", z3.Store(st.arr("dsz"), r, smt.simp(z3.If(was, sz - 1, sz))))
        st.setarr("dhas", z3.Store(st.arr("dhas"), r, z3.Store(has, k.t, False)))

    def set_add(self, s: SV, v: SV):
        st = self.st
        r = smt.rid(s.t)
        has = z3.Select(st.arr("dhas"), r)
        was = z3.Select(has, v.t)
        sz = z3.Select(st.arr("dsz"), r)
        st.setarr("dsz", z3.Store(st.arr("dsz"), r, smt.simp(z3.If(was, sz, sz + 1))))
        st.setarr("dhas", z3.Store(st.arr("dhas"), r, z3.Store(has, v.t, True)))

    # list primitives
    def list_len(self, l: SV):
        return smt.simp(z3.Select(self.st.arr("llen"), smt.rid(l.t)))

    def list_elty(self, l: SV):
        t = T.strip_opt(l.ty)
        if t.k == "list" and t.a:
            return t.a[0]
        return T.ANY

    def list_get(self, l: SV, i) -> SV:
        v = SV(smt.simp(z3.Select(z3.Select(self.st.arr("lel"), smt.rid(l.t)), i)), self.list_elty(l))
        return v

    def list_set(self, l: SV, i, v: SV):
        st = self.st
        r = smt.rid(l.t)
        st.setarr("lel", z3.Store(st.arr("lel"), r, z3.Store(z3.Select(st.arr("lel"), r), i, v.t)))

    def list_append(self, l: SV, v: SV):
        st = self.st
        r = smt.rid(l.t)
        n = z3.Select(st.arr("llen"), r)
        self.list_set(l, n, v)
        st.setarr("llen", z3.Store(st.arr("llen"), r, smt.simp(n + 1)))
        if l.ty.k == "list" and l.ty.a[0].k == "any" and isinstance(l.c, tuple):
            pass

    def ev_BoolOp(self, node, fr):
        st = self.st
        is_and = isinstance(node.op, ast.And)
        if st.spec_depth or st.guards or all(self.is_pure(v, fr) for v in node.values[1:]):
            # merged evaluation: result = first falsy (and) / first truthy (or), else last
            vals, conds = [], []
            pushed = 0
            try:
                for i, e in enumerate(node.values):
                    v = self.ev(e, fr)
                    vals.append(v)
                    if i < len(node.values) - 1:
                        c = self.truthy(v)
                        conds.append(c)
                        st.guards.append(c if is_and else z3.Not(c))
                        pushed += 1
            finally:
                for _ in range(pushed):
                    st.guards.pop()
            # boolean-only fast path
            if all(isinstance(v, SV) and v.ty.k == "bool" for v in vals):
                bs = [smt.bval(v.t) for v in vals]
                return self.as_bool_sv(z3.And(*bs) if is_and else z3.Or(*bs))
            res = vals[-1]
            for v, c in zip(reversed(vals[:-1]), reversed(conds)):
                res = self.merge(c, res, v) if is_and else self.merge(c, v, res)
            return res
        v = None
        for i, e in enumerate(node.values):
            v = self.ev(e, fr)
            if i == len(node.values) - 1:
                return v
            t = st.branch(self.truthy(v))
            if is_and and not t:
                return v
            if not is_and and t:
                return v
        return v

    def merge(self, c, a, b):
        """Value equal to a if c else b."""
        c = smt.simp(c)
        if z3.is_true(c):
            return a
        if z3.is_false(c):
            return b
        if isinstance(a, PTuple) and isinstance(b, PTuple) and len(a.items) == len(b.items):
            return PTuple([self.merge(c, x, y) for x, y in zip(a.items, b.items)])
        if isinstance(a, SV) and isinstance(b, SV):
            return SV(smt.simp(z3.If(c, a.t, b.t)), T.join(a.ty, b.ty))
        raise Refuse(f"cannot merge {type(a).__name__} with {type(b).__name__}")

    def ev_IfExp(self, node, fr):
        st = self.st
        cv = self.ev(node.test, fr)
        c = smt.simp(self.truthy(cv))
        if z3.is_true(c):
            return self.ev(node.body, fr)
        if z3.is_false(c):
            return self.ev(node.orelse, fr)
        if st.spec_depth or st.guards or (self.is_pure(node.body, fr) and self.is_pure(node.orelse, fr)):
            st.guards.append(c)
            try:
                a = self.ev(node.body, fr)
            finally:
                st.guards.pop()
            st.guards.append(z3.Not(c))
            try:
                b = self.ev(node.orelse, fr)
            finally:
                st.guards.pop()
            return self.merge(c, a, b)
        if st.branch(c):
            return self.ev(node.body, fr)
        return self.ev(node.orelse, fr)

    def ev_UnaryOp(self, node, fr):
        v = self.ev(node.operand, fr)
        if isinstance(node.op, ast.Not):
            return self.as_bool_sv(z3.Not(self.truthy(v)))
        if isinstance(node.op, ast.USub):
            if isinstance(v, SV) and v.c is not NOC and isinstance(v.c, (int, float)):
                return const(-v.c)
            x, isr = self.num(v)
            return SV(smt.mk_real(-x) if isr else smt.mk_int(-x), T.FLOAT if isr else T.INT)
        if isinstance(node.op, ast.UAdd):
            return v
        if isinstance(node.op, ast.Invert):
            raise Refuse("bare ~ (only `a & ~b` is modelled)")
        raise Refuse("unary op")

    def ev_BinOp(self, node, fr):
        op = node.op
        # a & ~b on 32-bit non-negative ints
        if isinstance(op, ast.BitAnd) and isinstance(node.right, ast.UnaryOp) and isinstance(node.right.op, ast.Invert):
            a = self.ev(node.left, fr)
            b = self.ev(node.right.operand, fr)
            x, _ = self.num(a)
            y, _ = self.num(b)
            self.st.oblige("safety", "bits32", z3.And(x >= 0, x < 2**32, y >= 0, y < 2**32), node.lineno)
            return SV(smt.mk_int(smt.andnot_int(x, y)), T.INT)
        a = self.ev(node.left, fr)
        b = self.ev(node.right, fr)
        return self.binop(op, a, b, node)

    def binop(self, op, a, b, node=None):
        st = self.st
        line = getattr(node, "lineno", 0)
        if isinstance(a, SV) and isinstance(b, SV) and a.c is not NOC and b.c is not NOC and \
                isinstance(a.c, (int, float, str)) and isinstance(b.c, (int, float, str)) and not isinstance(op, (ast.Div, ast.FloorDiv, ast.Mod)):
            try:
                import operator as _o
                f = {ast.Add: _o.add, ast.Sub: _o.sub, ast.Mult: _o.mul, ast.Pow: _o.pow}.get(type(op))
                if f:
                    return const(f(a.c, b.c))
            except Exception:
                pass
        if isinstance(op, ast.Add):
            ka, kb = T.strip_opt(a.ty).k if isinstance(a, SV) else "", T.strip_opt(b.ty).k if isinstance(b, SV) else ""
            if ka == "str" or kb == "str":
                return st.fresh_val("strcat", T.STR)
            if ka == "list" and kb == "list":
                return self.list_concat(a, b)
            if isinstance(a, PTuple) and isinstance(b, PTuple):
                return PTuple(a.items + b.items)
        if isinstance(op, ast.Mult) and isinstance(a, SV) and T.strip_opt(a.ty).k == "list" and z3.is_int_value(self.list_len(a)) \
                and self.list_len(a).as_long() == 1:
            # [x] * n: a fresh list of n copies of x (n < 0 gives the empty list)
            n_, _ = self.num(b)
            r = st.new_ref(LIST_CID)
            st.heap["llen"] = z3.Store(st.arr("llen"), r, smt.simp(z3.If(n_ > 0, n_, 0)))
            st.heap["lel"] = z3.Store(st.arr("lel"), r, z3.K(smt.I, self.list_get(a, z3.IntVal(0)).t))
            return SV(smt.mk_ref(r), a.ty)
        if isinstance(op, (ast.BitAnd, ast.BitOr)):
            x, _ = self.num(a)
            y, _ = self.num(b)
            if a.ty.k == "bool" and b.ty.k == "bool":
                f = z3.And if isinstance(op, ast.BitAnd) else z3.Or
                return self.as_bool_sv(f(smt.bval(a.t), smt.bval(b.t)))
            st.oblige("safety", "bits32", z3.And(x >= 0, x < 2**32, y >= 0, y < 2**32), line)
            return SV(smt.mk_int(smt.and_int(x, y) if isinstance(op, ast.BitAnd) else smt.or_int(x, y)), T.INT)
        x, rx = self.num(a)
        y, ry = self.num(b)
        isr = rx or ry
        if isr:
            x = x if rx else z3.ToReal(x)
            y = y if ry else z3.ToReal(y)
        if isinstance(op, ast.Add):
            r = x + y
        elif isinstance(op, ast.Sub):
            r = x - y
        elif isinstance(op, ast.Mult):
            xs, ys = smt.simp(x), smt.simp(y)
            if z3.is_rational_value(xs) or z3.is_int_value(xs) or z3.is_rational_value(ys) or z3.is_int_value(ys):
                r = x * y
            else:
                # product of two symbolic numbers: kept as an uninterpreted commutative function so that the arithmetic
                # stays linear (the proofs here only ever need the same product on both sides); listed as assumption
                a1, a2 = (xs, ys) if xs.get_id() <= ys.get_id() else (ys, xs)
                if isr:
                    r = z3.Function("rmul", smt.R, smt.R, smt.R)(a1, a2)
                else:
                    r = z3.Function("imul", smt.I, smt.I, smt.I)(a1, a2)
                st.log.append("products of two symbolic numbers are uninterpreted (commutative) terms")
        elif isinstance(op, ast.Div):
            st.oblige("safety", "divzero", y != 0, line)
            r = (x if isr else z3.ToReal(x)) / (y if isr else z3.ToReal(y))
            isr = True
        elif isinstance(op, ast.FloorDiv):
            if isr:
                raise Refuse("float floor division")
            st.oblige("safety", "divzero", y != 0, line)
            r = z3.If(y > 0, x / y, (-x) / (-y))  # z3 int division is floor for a positive divisor
        elif isinstance(op, ast.Mod):
            if isr:
                raise Refuse("float modulo")
            st.oblige("safety", "divzero", y != 0, line)
            r = x - y * z3.If(y > 0, x / y, (-x) / (-y))
        elif isinstance(op, ast.Pow):
            raise Refuse("symbolic power")
        else:
            raise Refuse(f"binary operator {type(op).__name__}")
        r = smt.simp(r)
        return SV(smt.mk_real(r) if isr else smt.mk_int(r), T.FLOAT if isr else T.INT)

    def list_concat(self, a: SV, b: SV) -> SV:
        st = self.st
        la, lb = self.list_len(a), self.list_len(b)
        r = st.new_ref(LIST_CID)
        i = z3.Int("i!cat")
        ea = z3.Select(st.arr("lel"), smt.rid(a.t))
        eb = z3.Select(st.arr("lel"), smt.rid(b.t))
        arr = smt.index_map(st, i, z3.If(i < la, z3.Select(ea, i), z3.Select(eb, i - la)))
        st.heap["llen"] = z3.Store(st.arr("llen"), r, smt.simp(la + lb))
        st.heap["lel"] = z3.Store(st.arr("lel"), r, arr)
        return SV(smt.mk_ref(r), T.LIST(T.join(self.list_elty(a), self.list_elty(b))))

    def ev_Compare(self, node, fr):
        left = self.ev(node.left, fr)
        res = []
        for op, rn in zip(node.ops, node.comparators):
            if isinstance(op, (ast.In, ast.NotIn)) and isinstance(rn, (ast.List, ast.Set)) and not any(isinstance(e, ast.Starred) for e in rn.elts):
                # membership in a literal list/set: no allocation, just a disjunction of equalities
                right = PTuple([self.ev(e, fr) for e in rn.elts])
            else:
                right = self.ev(rn, fr)
            res.append(self.compare(op, left, right, node))
            left = right
        if len(res) == 1:
            return self.as_bool_sv(res[0])
        return self.as_bool_sv(z3.And(*res))

    def compare(self, op, a, b, node=None):
        st = self.st
        if isinstance(op, ast.Eq):
            return self.eq(a, b)
        if isinstance(op, ast.NotEq):
            return z3.Not(self.eq(a, b))
        if isinstance(op, (ast.Is, ast.IsNot)):
            if isinstance(a, SV) and isinstance(b, SV):
                r = a.t == b.t
            elif isinstance(a, PClass) and isinstance(b, PClass):
                r = z3.BoolVal(a.ci is b.ci)
            elif isinstance(b, SV) and b.ty.k == "none":
                r = z3.BoolVal(False)
            else:
                raise Refuse("`is` on non-heap values")
            return r if isinstance(op, ast.Is) else z3.Not(r)
        if isinstance(op, (ast.In, ast.NotIn)):
            r = self.contains(b, a)
            return r if isinstance(op, ast.In) else z3.Not(r)
        if isinstance(a, SV) and isinstance(b, SV) and T.strip_opt(a.ty).k == "ip" and T.strip_opt(b.ty).k == "ip":
            x, y = smt.ipval(a.t), smt.ipval(b.t)
        else:
            x, rx = self.num(a)
            y, ry = self.num(b)
            if rx != ry:
                x = x if rx else z3.ToReal(x)
                y = y if ry else z3.ToReal(y)
        if isinstance(op, ast.Lt):
            return x < y
        if isinstance(op, ast.LtE):
            return x <= y
        if isinstance(op, ast.Gt):
            return x > y
        if isinstance(op, ast.GtE):
            return x >= y
        raise Refuse(f"comparison {type(op).__name__}")

    def contains(self, cont, item):
        """z3 Bool: item in cont."""
        st = self.st
        if isinstance(cont, PTuple):
            return z3.Or(*[self.eq(item, x) for x in cont.items]) if cont.items else z3.BoolVal(False)
        if isinstance(cont, PIter) and cont.kind in ("keys",):
            return self.contains(cont.a[0], item)
        if isinstance(cont, PIter) and cont.kind == "values":
            d = cont.a[0]
            k = st.fresh("k", Val)
            raise Refuse("`in d.values()`")
        if not isinstance(cont, SV):
            raise Refuse(f"`in` on {type(cont).__name__}")
        item = self.to_sv(item)
        k = T.strip_opt(cont.ty).k
        if k in ("dict", "set"):
            return self.dict_has(cont, item)
        if k in ("list", "tuple"):
            n = self.list_len(cont)
            if z3.is_int_value(n) and n.as_long() <= 32:
                ors = [self.eq(self.list_get(cont, z3.IntVal(j)), item) for j in range(n.as_long())]
                return z3.Or(*ors) if ors else z3.BoolVal(False)
            K = st.cfg.get("ground")
            if K:
                st.assume(n <= K)
                ors = [z3.And(j < n, self.eq(self.list_get(cont, z3.IntVal(j)), item)) for j in range(K)]
                return z3.Or(*ors)
            j = z3.Int(f"j!in{st.n_fresh}")
            st.n_fresh += 1
            el = z3.Select(z3.Select(st.arr("lel"), smt.rid(cont.t)), j)
            return z3.Exists([j], z3.And(j >= 0, j < n, el == item.t))
        if k == "str":
            return st.fresh("str_in", smt.B)
        if k == "ext" and T.strip_opt(cont.ty).a[0] == "IPv4Network":
            from .lib import in_net_term
            r = smt.rid(cont.t)
            return in_net_term(st, smt.ipval(item.t), smt.ipval(st.getf(r, "net:address")), smt.ipval(st.getf(r, "net:netmask")))
        if k == "obj":
            m = T.strip_opt(cont.ty).a[0].find_method("__contains__")
            if m is not None:
                if cont.ty.k == "opt":
                    st.oblige("safety", "none_deref.__contains__", z3.Not(smt.is_none(cont.t)), 0)
                res = self.call_function(m, SV(cont.t, T.strip_opt(cont.ty), cont.c), [item], {}, Frame(m.module, m.cls), None)
                return self.truthy(res)
        if k == "any":
            # an untyped value (e.g. an entry of a Dict[str, Any]): decided when it is a dictionary or a set, unknown otherwise
            cl = z3.Select(st.arr("cls"), smt.rid(cont.t))
            isd = z3.And(smt.is_ref(cont.t), z3.Or(cl == DICT_CID, cl == SET_CID))
            dh = self.dict_has(SV(cont.t, T.DICT(T.ANY, T.ANY)), item)
            st.n_fresh += 1
            return z3.If(isd, dh, st.fresh("any_in", smt.B))
        raise Refuse(f"`in` on value of type {cont.ty}")

    def ev_NamedExpr(self, node, fr):
        v = self.ev(node.value, fr)
        fr.locals[node.target.id] = v
        return v

    def ev_Lambda(self, node, fr):
        return PFunc(node, fr)

    def ev_Starred(self, node, fr):
        raise Refuse("starred expression")

    # -- attribute access
    def ev_Attribute(self, node, fr):
        base = self.ev(node.value, fr)
        return self.getattr(base, node.attr, fr, node)

    def attr_type(self, ci: ClassInfo, name: str, fr: Optional[Frame]):
        # a typing given by the contracts for a subclass refines the annotation inherited from a base class (looked up in MRO order)
        for c in ci.mro():
            key = f"{c.name}.{name}"
            if (fr is not None and fr.contract is not None and key in fr.contract.attr_types) or key in REG.attr_types:
                break
            if name in c.fields and c.fields[name][0] is not None:
                return T.field_type(ci, name)
        else:
            t = T.field_type(ci, name)
            if t is not None:
                return t
        for c in ci.mro():
            key = f"{c.name}.{name}"
            s = None
            if fr is not None and fr.contract is not None and key in fr.contract.attr_types:
                s = fr.contract.attr_types[key]
            elif key in REG.attr_types:
                s = REG.attr_types[key]
            if s is not None:
                return T.parse_ann(ast.parse(s, mode="eval").body, c.module, c)
            sa = c.self_annotations()
            if name in sa:
                return T.parse_ann(sa[name], c.module, c)
        return None

    def getattr(self, base, attr, fr, node=None):
        st = self.st
        line = getattr(node, "lineno", 0)
        if isinstance(base, PLog):
            return PLog()
        if isinstance(base, PMod):
            r = base.mi.resolve_name(attr)
            if r is None:
                sub = self.repo.module(base.mi.name + "." + attr)
                if sub:
                    return PMod(sub)
                raise Refuse(f"module attribute {base.mi.name}.{attr}")
            return self.wrap_resolved(r, attr, fr)
        if isinstance(base, PExt):
            return PExt(base.name + "." + attr)
        if isinstance(base, PClass):
            ci = base.ci
            if ci.is_enum and attr in ci.enum_members():
                return enum_value_sv(ci, attr)
            m = ci.find_method(attr)
            if m is not None:
                if m.is_classmethod:
                    return PBound(base, m)
                return PBound(None, m)
            for c in ci.mro():
                if attr in c.nested:
                    return PClass(c.nested[attr])
            f = ci.find_field(attr)
            if f is not None:
                owner, (ann, dflt) = f
                # class-level attribute read (ClassVar / default): evaluate the default expression -- except for mutable
                # containers (registries filled at import time, class-level caches): one fixed object per (class, attribute)
                # whose contents are unknown
                if isinstance(dflt, (ast.Dict, ast.List, ast.Set)) or (isinstance(dflt, ast.Call) and isinstance(dflt.func, ast.Name)
                                                                           and dflt.func.id in ("dict", "list", "set", "defaultdict")):
                    ty = T.parse_ann(ann, owner.module, owner) if ann is not None else T.ANY
                    if ty.k not in ("dict", "list", "set"):
                        ty = {ast.Dict: T.DICT(), ast.List: T.LIST(), ast.Set: T.SET()}.get(type(dflt), T.DICT())
                    st.log.append(f"class-level container {owner.name}.{attr}: contents unknown (filled at import / run time)")
                    return SV(smt.mk_ref(-(800000000 + smt.STR.id(f"clsattr:{owner.name}.{attr}"))), ty)
                if dflt is not None:
                    return self.ev(dflt, Frame(owner.module, owner))
            raise Refuse(f"class attribute {ci.name}.{attr}")
        if isinstance(base, PSuper):
            ci = class_of_value(base.selfv)
            m = ci.find_method_after(attr, base.after) if ci else None
            if m is None:
                raise Refuse(f"super().{attr} not found")
            return PBound(base.selfv, m, exact=True)
        if isinstance(base, PTuple):
            raise Refuse(f"attribute {attr} of tuple")
        if isinstance(base, (PFunc, PBound)):
            raise Refuse(f"attribute {attr} of function")
        if type(base).__name__ == "PKwargs" and attr == "get":
            from .calls import PKwGet
            return PKwGet(base)
        if not isinstance(base, SV):
            raise Refuse(f"attribute {attr} of {type(base).__name__}")
        ty = base.ty
        if ty.k == "opt":
            st.oblige("safety", f"none_deref.{attr}", z3.Not(smt.is_none(base.t)), line)
            ty = ty.a[0]
        if ty.k == "none":
            if st.spec_depth or st.guards:
                # unreachable under its guard (e.g. `x is None or x.f`): any value will do
                st.oblige("safety", f"none_deref.{attr}", z3.BoolVal(False), line)
                return SV(st.fresh("junk", Val), T.ANY)
            st.oblige("safety", f"none_deref.{attr}", z3.BoolVal(False), line)
            raise PathEnd()
        if ty.k == "enum":
            ci = ty.a[0]
            ms = ci.enum_members()
            terms = enum_member_terms(ci)
            if attr == "value":
                if ci.is_int_enum:
                    return SV(base.t, T.INT)
                names = list(ms)
                vals = [const(ms[n]) for n in names]
                res = vals[-1]
                for n, v in zip(reversed(names[:-1]), reversed(vals[:-1])):
                    res = SV(z3.If(base.t == terms[n], v.t, res.t), T.join(v.ty, res.ty))
                return SV(smt.simp(res.t), res.ty)
            if attr == "name":
                names = list(ms)
                res = const(names[-1])
                for n in reversed(names[:-1]):
                    res = SV(z3.If(base.t == terms[n], const(n).t, res.t), T.STR)
                return SV(smt.simp(res.t), T.STR)
            if attr in ms:
                return enum_value_sv(ci, attr)
            m_ = ci.find_method(attr)
            if m_ is not None:  # a method defined on the enumeration
                return PBound(SV(base.t, T.ENUM(ci), base.c), m_)
            raise Refuse(f"enum attribute {attr}")
        if ty.k in ("list", "dict", "set", "str", "tuple", "ip", "float", "int"):
            return PContainerMethod(SV(base.t, ty, base.c), attr)
        if ty.k == "type":
            inner = ty.a[0]
            if inner.k == "enum" and attr in inner.a[0].enum_members():
                # a class object of that enum family (e.g. Type[BaseKillChain]): members every family member repeats
                st.log.append(f"member {attr} read through a class object of type Type[{inner.a[0].name}]: taken from {inner.a[0].name}")
                return enum_value_sv(inner.a[0], attr)
            if inner.k in ("enum", "obj"):
                m_ = inner.a[0].find_method(attr)
                if m_ is not None:
                    # a method fetched from a class object (a member of that class family): called unbound, explicit self
                    st.log.append(f"method {attr} fetched from a class object of type Type[{inner.a[0].name}]: {inner.a[0].name}'s contract / body is used")
                    return PBound(None, m_)
            raise Refuse(f"attribute {attr} of class object {ty}")
        if ty.k == "ext":
            return self.ext_attr(base, ty.a[0], attr)
        if ty.k == "obj":
            ci = self.dispatch_class(base, ty.a[0], fr)
            if ci.name in LOG_CLASSES:
                return PLog()
            m = ci.find_method(attr)
            if m is not None:
                if m.is_property:
                    return self.call_function(m, SV(base.t, ty, base.c), [], {}, fr, node)
                return PBound(SV(base.t, ty, base.c), m)
            for c_ in ci.mro():  # a nested class reached through an instance (self.Inner)
                if attr in c_.nested:
                    return PClass(c_.nested[attr])
            aty = self.attr_type(ci, attr, fr)
            if aty is None:
                # attribute declared lower in the hierarchy: usable only when every declaring subclass agrees on its type
                found = []
                for sub in ci.subclasses():
                    t_ = self.attr_type(sub, attr, fr)
                    if t_ is not None and t_ not in found:
                        found.append(t_)
                if len(found) > 1 and all(f_.k == "enum" for f_ in found):
                    aty = T.Ty("enumunion", *[f_.a[0] for f_ in found])  # a member of one of the declaring subclasses' enums
                else:
                    aty = found[0] if len(found) == 1 else (T.ANY if found else None)
            if aty is not None and aty.k == "obj" and aty.a[0].name in LOG_CLASSES:
                return PLog()
            if aty is not None and aty.k == "opt" and aty.a[0].k == "obj" and aty.a[0].a[0].name in LOG_CLASSES:
                return PLog()
            v = SV(st.getf(smt.rid(base.t), attr), aty)
            st.assume_wt(v)
            return v
        if ty.k in ("any", "callable"):
            # duck dispatch: a method name defined by exactly one class hierarchy identifies the receiver's class
            roots = self.method_roots(attr)
            if len(roots) == 1:
                from .lib import isinstance_pred
                ci = roots[0]
                st.oblige("safety", f"receiver_is_{ci.name}.{attr}", isinstance_pred(self, base, PClass(ci)), line)
                return self.getattr(SV(base.t, T.OBJ(ci)), attr, fr, node)
            st.oblige("safety", f"attr_of_nonobject.{attr}", smt.is_ref(base.t), line)
            return SV(st.getf(smt.rid(base.t), attr), T.ANY)
        raise Refuse(f"attribute {attr} of value of type {ty}")

    _roots_cache: Dict[str, list] = {}

    def method_roots(self, name):
        if name not in Interp._roots_cache:
            defs = [c for c in self.repo.all_classes() if name in c.methods]
            roots = [c for c in defs if not any(b is not c and name in b.methods for b in c.mro()[1:])]
            Interp._roots_cache[name] = roots
        return Interp._roots_cache[name]

    def dispatch_class(self, base: SV, ci: ClassInfo, fr) -> ClassInfo:
        return ci

    def ext_attr(self, base: SV, extname: str, attr: str):
        st = self.st
        if extname == "IPv4Network":
            r = smt.rid(base.t)
            a = smt.ipval(st.getf(r, "net:address"))
            m = smt.ipval(st.getf(r, "net:netmask"))
            if attr == "netmask":
                return SV(st.getf(r, "net:netmask"), T.IP)
            if attr == "network_address":
                return SV(smt.mk_ip(smt.and_int(a, m)), T.IP)
            if attr == "broadcast_address":
                return SV(smt.mk_ip(smt.or_int(a, smt.andnot_int(z3.IntVal(2**32 - 1), m))), T.IP)
            if attr == "prefixlen":
                v = SV(st.getf(r, "net:prefixlen"), T.INT)
                st.assume(z3.And(smt.is_int(v.t), smt.ival(v.t) >= 0, smt.ival(v.t) <= 32))
                return v
        if extname == "ParseResult":
            # urllib.parse.urlparse(x): the parts are uninterpreted functions of the parsed text; a missing text (None) has
            # no host and no port (CPython: urlparse(None).hostname is None)
            if not (isinstance(base.c, tuple) and base.c and base.c[0] == "url"):
                raise Refuse("urlparse result that went through the heap")
            src = base.c[1]  # the parsed text travels with the value, not in the heap (a parse result is immutable)
            if attr == "hostname":
                F = z3.Function("url_hostname", Val, Val)
                v = SV(F(src), T.OPT(T.STR))
                st.assume(z3.Or(smt.is_none(v.t), z3.And(smt.is_str(v.t), smt.sval(v.t) >= 0)))
                st.assume(z3.Implies(smt.is_none(src), smt.is_none(v.t)))
                return v
            if attr == "port":
                F = z3.Function("url_port", Val, Val)
                v = SV(F(src), T.OPT(T.INT))
                st.assume(z3.Or(smt.is_none(v.t), z3.And(smt.is_int(v.t), smt.ival(v.t) >= 0, smt.ival(v.t) < 65536)))
                st.assume(z3.Implies(smt.is_none(src), smt.is_none(v.t)))
                return v
            if attr in ("scheme", "path", "netloc", "query"):
                return SV(z3.Function("url_" + attr, Val, Val)(src), T.ANY)
        return PContainerMethod(base, attr)

    # -- subscripts
    def ev_Subscript(self, node, fr):
        base = self.ev(node.value, fr)
        if isinstance(node.slice, ast.Slice):
            return self.slice(base, node.slice, fr, node)
        idx = self.ev(node.slice, fr)
        return self.getitem(base, idx, node)

    def norm_index(self, l: SV, idx: SV, line, label="index"):
        n = self.list_len(l)
        i, _ = self.num(idx)
        i = smt.simp(i)
        self.safety("IndexError", label, z3.And(i >= -n, i < n), line)
        return smt.simp(z3.If(i < 0, i + n, i))

    def getitem(self, base, idx, node=None):
        st = self.st
        line = getattr(node, "lineno", 0)
        if isinstance(base, PTuple):
            if isinstance(idx, SV) and isinstance(idx.c, int):
                try:
                    return base.items[idx.c]
                except IndexError:
                    st.oblige("safety", "index", z3.BoolVal(False), line)
                    raise PathEnd()
            raise Refuse("symbolic index into python-side tuple")
        if isinstance(base, PClass) and base.ci.is_enum:
            # Enum["NAME"]
            ms = enum_member_terms(base.ci)
            idx = self.to_sv(idx)
            names = list(ms)
            self.safety("KeyError", f"enum_key.{base.ci.name}", z3.Or(*[idx.t == const(n).t for n in names]), line)
            res = ms[names[-1]]
            for n in reversed(names[:-1]):
                res = z3.If(idx.t == const(n).t, ms[n], res)
            return SV(smt.simp(res), T.ENUM(base.ci))
        if isinstance(base, PSpace):
            kk = idx if isinstance(idx, SV) else None
            if base.kind not in ("dict", "raw") or kk is None or kk.c is NOC or kk.c not in base.items:
                raise Refuse("space[...] with a computed or absent key")
            return base.items[kk.c]
        if isinstance(base, PExt):
            st.log.append(f"{base.name}[...] read as an unconstrained value")
            return st.fresh_val("ext_item", T.ANY)
        if not isinstance(base, SV):
            raise Refuse(f"subscript of {type(base).__name__}")
        ty = base.ty
        if ty.k == "opt":
            st.oblige("safety", "none_subscript", z3.Not(smt.is_none(base.t)), line)
            ty = ty.a[0]
            base = SV(base.t, ty)
        idx = self.to_sv(idx)
        if ty.k in ("list", "tuple"):
            i = self.norm_index(base, idx, line)
            if ty.k == "tuple" and ty.a and z3.is_int_value(i) and i.as_long() < len(ty.a):
                v = SV(smt.simp(z3.Select(z3.Select(st.arr("lel"), smt.rid(base.t)), i)), ty.a[i.as_long()])
            else:
                v = self.list_get(base, i)
            st.assume_wt(v)
            return v
        if ty.k == "dict":
            self.safety("KeyError", "key", self.dict_has(base, idx), line)
            v = self.dict_get(base, idx)
            st.assume_wt(v)
            return v
        if ty.k == "any":
            # decide by index hint: int index -> list, otherwise dict
            if idx.ty.k == "int":
                l = SV(base.t, T.LIST(T.ANY))
                st.oblige("safety", "subscript_of_nonlist", smt.is_ref(base.t), line)
                i = self.norm_index(l, idx, line)
                return self.list_get(l, i)
            d = SV(base.t, T.DICT())
            st.oblige("safety", "subscript_of_nondict", smt.is_ref(base.t), line)
            self.safety("KeyError", "key", self.dict_has(d, idx), line)
            return self.dict_get(d, idx)
        raise Refuse(f"subscript of value of type {ty}")

    def slice(self, base, sl: ast.Slice, fr, node):
        st = self.st
        if sl.step is not None:
            stp = self.ev(sl.step, fr)
            if isinstance(stp, SV) and stp.c == -1 and sl.lower is None and sl.upper is None and isinstance(base, SV) \
                    and T.strip_opt(base.ty).k == "list":
                # x[::-1]: a new list with the elements in reverse order
                n_ = self.list_len(base)
                src = z3.Select(st.arr("lel"), smt.rid(base.t))
                j = z3.Int("j!rev")
                r = st.new_ref(LIST_CID)
                st.heap["llen"] = z3.Store(st.arr("llen"), r, n_)
                st.heap["lel"] = z3.Store(st.arr("lel"), r, smt.index_map(st, j, z3.Select(src, n_ - 1 - j)))
                return SV(smt.mk_ref(r), T.strip_opt(base.ty))
            raise Refuse("slice step")
        if isinstance(base, PTuple):
            lo = self.ev(sl.lower, fr).c if sl.lower else None
            hi = self.ev(sl.upper, fr).c if sl.upper else None
            return PTuple(base.items[lo:hi])
        if not isinstance(base, SV) or T.strip_opt(base.ty).k not in ("list", "any"):
            raise Refuse(f"slice of {getattr(base, 'ty', type(base).__name__)}")
        l = SV(base.t, T.LIST(self.list_elty(base)))
        arr, n2 = self.slice_arrays(l, sl, fr)
        sid = self.slice_seqid(l, sl, fr)
        r = st.new_ref(LIST_CID)
        st.heap["llen"] = z3.Store(st.arr("llen"), r, n2)
        st.heap["lel"] = z3.Store(st.arr("lel"), r, arr)
        st.heap["f:$seq"] = z3.Store(st.arr("f:$seq"), r, sid)
        return SV(smt.mk_ref(r), l.ty)

    def slice_seqid(self, l: SV, sl: ast.Slice, fr):
        """Ghost content identity of l[lo:hi] = SLICE(identity of l, lo, hi) (hi = -1 when omitted)."""
        st = self.st
        F = z3.Function("SEQ_SLICE", Val, smt.I, smt.I, Val)
        lo = self.num(self.ev(sl.lower, fr))[0] if sl.lower is not None else z3.IntVal(0)
        hi = self.num(self.ev(sl.upper, fr))[0] if sl.upper is not None else z3.IntVal(-1)
        return F(z3.Select(st.arr("f:$seq"), smt.rid(l.t)), smt.simp(lo), smt.simp(hi))

    def slice_arrays(self, l: SV, sl: ast.Slice, fr):
        """(elements array, length) of l[lo:hi] -- shared by code and by the spec form seq(x[a:b])."""
        st = self.st
        n = self.list_len(l)

        def bound(e, dflt):
            if e is None:
                return dflt
            x, _ = self.num(self.ev(e, fr))
            x = z3.If(x < 0, x + n, x)
            return z3.If(x < 0, 0, z3.If(x > n, n, x))

        lo = smt.simp(bound(sl.lower, z3.IntVal(0)))
        hi = smt.simp(bound(sl.upper, n))
        i = z3.Int("i!sl")
        src = z3.Select(st.arr("lel"), smt.rid(l.t))
        return smt.index_map(st, i, z3.Select(src, i + lo)), smt.simp(z3.If(hi > lo, hi - lo, 0))

    # ---------------------------------------------------------------- comprehension / generator support
    def ev_GeneratorExp(self, node, fr):
        return PIter("genexp", node, fr)

    def ev_ListComp(self, node, fr):
        return self.comprehension(node, fr, "list")

    def ev_SetComp(self, node, fr):
        return self.comprehension(node, fr, "set")

    def ev_DictComp(self, node, fr):
        return self.comprehension(node, fr, "dict")

    def comprehension(self, node, fr, kind):
        from .comp import eval_comprehension
        return eval_comprehension(self, node, fr, kind)

    # ---------------------------------------------------------------- calls
    def ev_Call(self, node, fr):
        from .calls import eval_call
        return eval_call(self, node, fr)

    def call_function(self, finfo, selfv, args, kwargs, fr, node=None, exact=False):
        from .calls import call_function
        return call_function(self, finfo, selfv, args, kwargs, fr, node, exact)

    # ---------------------------------------------------------------- statements
    def exec_block(self, stmts, fr: Frame):
        for s in stmts:
            self.exec(s, fr)

    def exec(self, node, fr: Frame):
        m = getattr(self, "st_" + type(node).__name__, None)
        if m is None:
            raise Refuse(f"statement {type(node).__name__} at line {node.lineno} in {fr.module.relpath}")
        return m(node, fr)

    def st_Expr(self, node, fr):
        if isinstance(node.value, ast.Constant):
            return
        self.ev(node.value, fr)

    def st_Pass(self, node, fr):
        pass

    def st_Return(self, node, fr):
        raise ReturnEx(self.ev(node.value, fr) if node.value is not None else const(None))

    def st_Break(self, node, fr):
        raise BreakEx()

    def st_Continue(self, node, fr):
        raise ContinueEx()

    def st_Assert(self, node, fr):
        c = self.truthy(self.ev(node.test, fr))
        self.st.oblige("safety", f"assert.L{node.lineno}", c, node.lineno)

    def st_Global(self, node, fr):
        raise Refuse("global statement")

    def st_Delete(self, node, fr):
        for t in node.targets:
            if isinstance(t, ast.Name):
                fr.locals.pop(t.id, None)
            elif isinstance(t, ast.Subscript):
                base = self.ev(t.value, fr)
                idx = self.to_sv(self.ev(t.slice, fr))
                if isinstance(base, SV) and T.strip_opt(base.ty).k == "dict":
                    self.st.oblige("safety", "key", self.dict_has(base, idx), node.lineno)
                    self.dict_del(base, idx)
                else:
                    raise Refuse("del on non-dict subscript")
            else:
                raise Refuse("del target")

    def st_Assign(self, node, fr):
        v = self.ev(node.value, fr)
        for t in node.targets:
            self.assign(t, v, fr)

    def st_AnnAssign(self, node, fr):
        if node.value is None:
            return
        v = self.ev(node.value, fr)
        if isinstance(node.target, ast.Name) and isinstance(v, SV) and v.ty.k in ("any", "none") and not (v.ty.k == "none"):
            ty = T.parse_ann(node.annotation, fr.module, fr.cls)
            if ty.k != "any":
                v = SV(v.t, ty, v.c)
        elif isinstance(node.target, ast.Name) and isinstance(v, SV) and T.strip_opt(v.ty).k == "obj":
            # `x: Sub = expr` where expr is statically a base class: the annotation is taken as a downcast (A7)
            ty = T.parse_ann(node.annotation, fr.module, fr.cls)
            if T.strip_opt(ty).k == "obj" and T.strip_opt(ty).a[0] is not T.strip_opt(v.ty).a[0] \
                    and T.strip_opt(v.ty).a[0] in T.strip_opt(ty).a[0].mro():
                nt = T.OPT(T.strip_opt(ty)) if v.ty.k == "opt" else T.strip_opt(ty)
                v = SV(v.t, nt, v.c)
                if not self.st.binder_asms:
                    self.st.assume_wt(v)  # A7: the object really is of the declared (sub)class
                self.st.log.append(f"annotation downcast {T.strip_opt(v.ty).a[0].name} at line {node.lineno} of {fr.module.relpath} trusted (A7)")
        elif isinstance(node.target, ast.Name) and isinstance(v, SV) and v.ty.k == "none":
            ty = T.parse_ann(node.annotation, fr.module, fr.cls)
            if ty.k not in ("any", "none"):
                v = SV(v.t, T.OPT(ty), v.c)
        self.assign(node.target, v, fr)

    def st_AugAssign(self, node, fr):
        cur = self.ev(node.target, fr)
        rhs = self.ev(node.value, fr)
        if isinstance(cur, SV) and T.strip_opt(cur.ty).k == "list" and isinstance(node.op, ast.Add):
            from .calls import list_extend
            list_extend(self, cur, rhs)
            return
        v = self.binop(node.op, cur, rhs, node)
        self.assign(node.target, v, fr)

    def assign(self, target, v, fr: Frame):
        st = self.st
        if isinstance(target, ast.Name):
            f = fr
            # python scoping: assignment binds in the current function frame
            fr.locals[target.id] = v
            return
        if isinstance(target, (ast.Tuple, ast.List)):
            if isinstance(v, PTuple):
                if len(v.items) != len(target.elts):
                    raise Refuse("unpack arity mismatch")
                for t, x in zip(target.elts, v.items):
                    self.assign(t, x, fr)
                return
            if isinstance(v, SV) and T.strip_opt(v.ty).k in ("tuple", "list"):
                n = self.list_len(v)
                st.oblige("safety", "unpack_arity", n == len(target.elts), getattr(target, "lineno", 0))
                ty = T.strip_opt(v.ty)
                for i, t in enumerate(target.elts):
                    ety = ty.a[i] if ty.k == "tuple" and i < len(ty.a) else (self.list_elty(v))
                    x = SV(smt.simp(z3.Select(z3.Select(st.arr("lel"), smt.rid(v.t)), i)), ety)
                    st.assume_wt(x)
                    self.assign(t, x, fr)
                return
            raise Refuse(f"unpack of {type(v).__name__}")
        if isinstance(target, ast.Attribute):
            base = self.ev(target.value, fr)
            self.setattr(base, target.attr, v, fr, target)
            return
        if isinstance(target, ast.Subscript):
            base = self.ev(target.value, fr)
            if isinstance(base, PSpace) and base.kind in ("dict", "raw"):
                kk = self.ev(target.slice, fr)
                if not isinstance(kk, SV) or kk.c is NOC or isinstance(kk.c, tuple) or not isinstance(v, PSpace):
                    raise Refuse("space[...] = ... with a computed key or a non-space value")
                base.items[kk.c] = v
                return
            idx = self.to_sv(self.ev(target.slice, fr))
            v = self.to_sv(v)
            if not isinstance(base, SV):
                raise Refuse("subscript store on non-heap value")
            ty = T.strip_opt(base.ty)
            if base.ty.k == "opt":
                st.oblige("safety", "none_subscript", z3.Not(smt.is_none(base.t)), target.lineno)
            if ty.k == "list":
                i = self.norm_index(SV(base.t, ty), idx, target.lineno, "index_store")
                self.list_set(base, i, v)
                return
            if ty.k == "dict" or (ty.k == "any" and idx.ty.k != "int"):
                self.dict_set(base if ty.k == "dict" else SV(base.t, T.DICT()), idx, v)
                return
            raise Refuse(f"subscript store on value of type {base.ty}")
        raise Refuse(f"assignment target {type(target).__name__}")

    def setattr(self, base, attr, v, fr, node=None):
        st = self.st
        line = getattr(node, "lineno", 0)
        if isinstance(base, PClass):
            raise Refuse(f"store to class attribute {base.ci.name}.{attr}")
        if isinstance(base, (PExt, PLog)):
            st.log.append(f"store to attribute .{attr} of an external / logging object ignored")
            return
        if not isinstance(base, SV):
            raise Refuse(f"attribute store on {type(base).__name__}")
        ty = base.ty
        if ty.k == "opt":
            st.oblige("safety", f"none_deref.{attr}", z3.Not(smt.is_none(base.t)), line)
            ty = ty.a[0]
        if ty.k == "obj":
            ci = ty.a[0]
            setter = ci.find_method(attr + ".setter")
            if setter is not None:
                self.call_function(setter, SV(base.t, ty), [v], {}, fr, node)
                return
        elif ty.k == "any":
            st.oblige("safety", f"attr_of_nonobject.{attr}", smt.is_ref(base.t), line)
        elif ty.k == "none":
            # the value is None on every path reaching here: the store raises AttributeError
            st.oblige("safety", f"none_deref.{attr}", z3.BoolVal(False), line)
            raise PathEnd()
        else:
            raise Refuse(f"attribute store on value of type {ty}")
        st.setf(smt.rid(base.t), attr, self.to_sv(v).t)

    def st_If(self, node, fr):
        c = self.truthy(self.ev(node.test, fr))
        if self.st.branch(c):
            self.exec_block(node.body, fr)
        else:
            self.exec_block(node.orelse, fr)

    def st_Raise(self, node, fr):
        name = "Exception"
        if node.exc is not None:
            e = node.exc
            if isinstance(e, ast.Call):
                e = e.func
            if isinstance(e, ast.Name):
                name = e.id
            elif isinstance(e, ast.Attribute):
                name = e.attr
        raise RaiseEx(name, node)

    def st_FunctionDef(self, node, fr):
        fr.locals[node.name] = PFunc(node, fr, node.name)

    def st_Import(self, node, fr):
        for a in node.names:
            nm = (a.asname or a.name).split(".")[0]
            m = self.repo.module(a.name)
            fr.locals[nm] = PMod(m) if m else PExt(a.name)

    def st_ImportFrom(self, node, fr):
        for a in node.names:
            m = self.repo.module(node.module or "")
            if m is not None:
                fr.locals[a.asname or a.name] = self.wrap_resolved(m.resolve_name(a.name), a.name, fr)
            else:
                fr.locals[a.asname or a.name] = PExt(f"{node.module}.{a.name}")

    def st_For(self, node, fr):
        from .loops import exec_for
        exec_for(self, node, fr)

    def st_While(self, node, fr):
        from .loops import exec_while
        exec_while(self, node, fr)

    def st_Try(self, node, fr):
        from .loops import exec_try
        exec_try(self, node, fr)

    def st_With(self, node, fr):
        raise Refuse("with statement")


BUILTIN_TYPES = {"int", "str", "bool", "float", "list", "dict", "set", "tuple", "object", "type", "frozenset", "bytes"}
BUILTIN_EXC = {"Exception", "ValueError", "KeyError", "IndexError", "RuntimeError", "TypeError", "AttributeError",
               "NotImplementedError", "RuntimeWarning", "StopIteration", "AssertionError", "ZeroDivisionError"}
BUILTIN_FUNCS = {"len", "isinstance", "issubclass", "min", "max", "abs", "sum", "any", "all", "range", "enumerate", "zip",
                 "sorted", "reversed", "getattr", "hasattr", "setattr", "print", "next", "iter", "round", "super", "id",
                 "hash", "repr", "callable", "map", "filter", "divmod", "pow"}


def single_return_expr(fnode) -> Optional[ast.AST]:
    body = list(fnode.body)
    if body and isinstance(body[0], ast.Expr) and isinstance(body[0].value, ast.Constant) and isinstance(body[0].value.value, str):
        body = body[1:]
    if len(body) == 1 and isinstance(body[0], ast.Return) and body[0].value is not None:
        return body[0].value
    return None


def class_of_value(v) -> Optional[ClassInfo]:
    if isinstance(v, SV):
        t = T.strip_opt(v.ty)
        if t.k == "obj":
            return t.a[0]
    if isinstance(v, PClass):
        return v.ci
    return None
