"""Per-function verification driver: enumerate paths, collect obligations, discharge them, decode counter-models."""
from __future__ import annotations

import ast
import json
import os
import subprocess
import tempfile
import time
import traceback
from typing import Any, Dict, List, Optional

import z3

from . import smt
from . import types as T
from .calls import ev_spec, parse_expr, spec_bool
from .contracts import REG, Contract
from .interp import (ALLOC_BASE, NOC, Frame, Interp, Obligation, PathEnd, PTuple, RaiseEx, Refuse, ReturnEx, State, SV,
                     const)
from .loops import check_frame
from .repo import ClassInfo, FuncInfo, Repo
from .smt import Val


class FucResult:
    def __init__(self, key):
        self.key = key
        self.file = ""
        self.qualname = ""
        self.sha = ""
        self.paths = 0
        self.obligations: List[dict] = []
        self.error: Optional[str] = None  # engine refusal / crash (exit 3)
        self.secs = 0.0
        self.log: List[str] = []
        self.vacuous = False
        self.lines = (0, 0)


def locate(key: str, con: Contract):
    """Return (finfo-like, body statements or expression, param node, display name)."""
    target = Repo.get().find(key.split("#")[0])
    return target


def param_type(I: Interp, finfo: FuncInfo, con: Contract, p: ast.arg, owner: Optional[ClassInfo]) -> T.Ty:
    if p.arg in con.types:
        return T.parse_ann(parse_expr(con.types[p.arg]), finfo.module, owner)
    if p.annotation is not None:
        return T.parse_ann(p.annotation, finfo.module, owner)
    return T.ANY


def entry_frame(I: Interp, finfo: FuncInfo, con: Contract, fnode):
    st = I.st
    owner = finfo.cls
    if con.self_class:
        owner_dyn = Repo.get().class_by_name(con.self_class)
    else:
        owner_dyn = owner
    fr = Frame(finfo.module, owner, None, finfo, None, con)
    a = fnode.args
    params = a.posonlyargs + a.args + a.kwonlyargs
    is_method = owner is not None and not finfo.is_staticmethod and not isinstance(fnode, ast.Lambda)
    for k, p in enumerate(params):
        if k == 0 and is_method:
            if finfo.is_classmethod:
                from .interp import PClass
                v = PClass(owner_dyn)
            else:
                v = SV(z3.Const("self", Val), T.OBJ(owner_dyn))
                st.assume_wt(v)
            fr.selfv = v
        else:
            ty = param_type(I, finfo, con, p, owner)
            v = SV(z3.Const(p.arg, Val), ty)
            st.assume_wt(v)
        fr.locals[p.arg] = v
    if a.vararg:
        raise Refuse(f"*args in function under contract {finfo.key}")
    if a.kwarg:
        from .calls import PKwargs
        declared = {}
        for k, ann in (con.types or {}).items():
            if k.startswith(a.kwarg.arg + "."):
                declared[k.split(".", 1)[1]] = T.parse_ann(parse_expr(ann), finfo.module, owner)
        fr.locals[a.kwarg.arg] = PKwargs({}, entry=declared)
        st.log.append(f"{finfo.key}: **{a.kwarg.arg} taken as " + (f"exactly the keywords {sorted(declared)} (assumed present, typed by the contract)" if declared else "empty"))
    return fr


def closure_frame(I: Interp, finfo: FuncInfo, con: Contract):
    """For a region (lambda / nested def) inside a method: bind the enclosing method's self symbolically."""
    st = I.st
    owner = finfo.cls
    if con.self_class:
        owner = Repo.get().class_by_name(con.self_class)
    outer = Frame(finfo.module, finfo.cls, None, finfo, None, con)
    if owner is not None:
        v = SV(z3.Const("self", Val), T.OBJ(owner))
        st.assume_wt(v)
        outer.selfv = v
        outer.locals["self"] = v
    return outer


def find_region(finfo: FuncInfo, region):
    """region = ('lambda', n) n-th lambda in pre-order | ('def', name) nested def | ('request', 'name') the lambda
    passed as func= of the RequestType registered under that literal name via add_request("name", RequestType(func=...))."""
    kind, arg = region
    if kind == "lambda":
        lams = [n for n in ast.walk(finfo.node) if isinstance(n, ast.Lambda)]
        return lams[arg]
    if kind == "def":
        for n in ast.walk(finfo.node):
            if isinstance(n, ast.FunctionDef) and n.name == arg and n is not finfo.node:
                return n
        raise KeyError(f"nested def {arg} not found in {finfo.key}")
    if kind == "request":
        for n in ast.walk(finfo.node):
            if isinstance(n, ast.Call) and isinstance(n.func, ast.Attribute) and n.func.attr == "add_request" and n.args:
                a0 = n.args[0]
                if isinstance(a0, ast.Constant) and a0.value == arg:
                    rt = n.args[1] if len(n.args) > 1 else next(k.value for k in n.keywords if k.arg == "request_type")
                    for k in rt.keywords:
                        if k.arg == "func":
                            return k.value
        raise KeyError(f"request {arg!r} not registered in {finfo.key}")
    if kind == "block":
        # a run of consecutive statements inside a long function, located by the source text its first statement starts
        # with (must be unique in the function): {"start": "...", "count": n}
        start, count = arg["start"], arg.get("count", 1)
        hits = []
        for n in ast.walk(finfo.node):
            for fld in ("body", "orelse", "finalbody"):
                seq = getattr(n, fld, None)
                if isinstance(seq, list):
                    for j, stt in enumerate(seq):
                        if isinstance(stt, ast.stmt) and ast.unparse(stt).startswith(start):
                            hits.append(seq[j:j + count] if count else seq[j:])  # count 0: to the end of the enclosing block
        if len(hits) != 1 or (count and len(hits[0]) != count):
            raise KeyError(f"block starting with {start!r} found {len(hits)} times in {finfo.key} (or shorter than {count} statements)")
        return hits[0]
    raise KeyError(region)


def run_path(I: Interp, finfo: FuncInfo, con: Contract):
    st = I.st
    fnode = finfo.node
    outer = None
    block = None
    if con.region is not None and con.region[0] == "block":
        # the free variables of the block are the names the contract declares types for: symbolic entry values
        block = find_region(finfo, con.region)
        fr = Frame(finfo.module, finfo.cls, None, finfo, None, con)
        for nm, ann in con.types.items():
            if "." in nm:
                continue
            v = SV(z3.Const(nm, Val), T.parse_ann(parse_expr(ann), finfo.module, finfo.cls))
            st.assume_wt(v)
            fr.locals[nm] = v
        fnode = None
    elif con.region is not None:
        fnode = find_region(finfo, con.region)
        outer = closure_frame(I, finfo, con)
        if isinstance(fnode, ast.Name):
            # func=self._some_method style: resolve to the nested def of that name
            fnode = find_region(finfo, ("def", fnode.id))
        if not isinstance(fnode, (ast.Lambda, ast.FunctionDef)):
            raise Refuse(f"region {con.region} of {finfo.key} is a {type(fnode).__name__}")
        fr = Frame(finfo.module, finfo.cls, outer.selfv, finfo, outer, con)
        for p in fnode.args.args:
            ty = T.parse_ann(parse_expr(con.types[p.arg]), finfo.module, finfo.cls) if p.arg in con.types else (
                T.parse_ann(p.annotation, finfo.module, finfo.cls) if p.annotation is not None else T.ANY)
            v = SV(z3.Const(p.arg, Val), ty)
            st.assume_wt(v)
            fr.locals[p.arg] = v
    else:
        fr = entry_frame(I, finfo, con, fnode)
    sf = Frame(finfo.module, finfo.cls, fr.selfv, finfo, outer, con)
    sf.locals.update(fr.locals)
    st.entry_params = dict(fr.locals)
    if outer is not None:
        st.entry_params.update(outer.locals)
    st.cfg["spec_frame"] = sf
    entry_sf = Frame(finfo.module, finfo.cls, fr.selfv, finfo, outer, con)  # parameters as they were at entry (for `decreases`)
    entry_sf.locals.update(fr.locals)
    st.cfg["spec_frame_entry"] = entry_sf
    st.old_stack.append(st.entry_heap)
    for label, e in con.requires:
        st.assume(spec_bool(I, e, sf))
    for label, e in con.axioms:
        st.assume(spec_bool(I, e, sf))
    for nm in con.invariants:
        st.assume(invariant_formula(I, nm, sf))
    st.cfg["_pc_requires"] = len(st.pc)  # the path condition up to here is typing + the function's own preconditions
    st.old_stack.pop()
    if st.cfg.get("check_vacuity"):
        if not st.consistent(5000, full=True):
            st.cfg["vacuous"] = True
            raise PathEnd()
    ret = None
    raised = None
    try:
        if block is not None:
            I.exec_block(block, fr)
            ret = const(None)
            for nm, v in fr.locals.items():  # names the block binds are visible to the postconditions
                sf.locals.setdefault(nm, v)
        elif isinstance(fnode, ast.Lambda):
            ret = I.ev(fnode.body, fr)
        else:
            I.exec_block(fnode.body, fr)
            ret = const(None)
    except ReturnEx as r:
        ret = r.v
    except RaiseEx as e:
        raised = e
    st.old_stack.append(st.entry_heap)
    try:
        if raised is not None:
            name = raised.exc_name
            line = getattr(raised.node, "lineno", 0)
            allowed = None
            for k, cond in con.raises.items():
                if k == name:
                    allowed = cond
            if allowed is None:
                st.oblige("safety", f"raise.{name}@L{line}", z3.BoolVal(False), line)
            else:
                saved = st.heap
                st.heap = dict(st.entry_heap)
                try:
                    c = spec_bool(I, allowed, sf)
                finally:
                    for k2, v2 in st.heap.items():
                        saved.setdefault(k2, v2)
                    st.heap = saved
                st.oblige("raises", f"{name}.only_when@L{line}", c, line)
                for label, e in con.raises_ensures:
                    st.oblige("raises", f"{name}.{label}", spec_bool(I, e, sf), line)
                check_frame(I, st.entry_heap, st.alloc_entry, con.modifies, sf, "frame", f"raise.{name}")
            return
        sf.locals["result"] = ret
        # goals are evaluated first so that small-scope assumptions made while grounding quantifiers (refutation
        # mode) and typing assumptions are in force for every obligation of the path
        bounded_mode = bool(st.cfg.get("ground") or st.cfg.get("unroll"))
        if bounded_mode and not st.consistent():
            st.cfg["vacuous_exit"] = True  # (small-scope bounds added while grounding the ensures may legitimately exclude the path)
        goals = [(label, spec_bool(I, e, sf)) for label, e in con.ensures]
        if bounded_mode and con.bounded and not st.cfg.get("vacuous_exit") and not st.consistent(3000, full=True):
            # a bounded stand-in: paths excluded by the small-scope bounds are expected, but if EVERY path is contradictory the
            # stand-in checks nothing (see verify_fuc)
            st.cfg["_infeasible_full"] = True
        # vacuity guard: the path condition (with the typing assumptions the ensures clauses brought in) must still be
        # satisfiable here, otherwise every postcondition of this path would be discharged from a contradiction
        if not bounded_mode and not st.consistent():
            st.cfg["vacuous_exit"] = True
        elif not bounded_mode and not st.cfg.get("vacuous_exit") and not st.consistent(st.cfg.get("vacuity_timeout_ms", 1500), full=True):
            # contradictory only together with quantified facts (callee postconditions, container well-formedness, liveness):
            # usually a branch that those facts exclude (e.g. `None in open_ports`), which branch pruning -- quantifier-free --
            # cannot see.  Not refused, but recorded in the evidence so that an over-strong assumption does not go unnoticed.
            st.log.append(f"INFEASIBLE-PATH {st.fuc_name} path {''.join(str(x) for x in st.trace)}: excluded by quantified assumptions (its obligations hold trivially)")
        for label, g in goals:
            st.oblige("post", label, g)
        for nm in con.invariants:
            st.oblige("inv", nm, invariant_formula(I, nm, sf))
        check_frame(I, st.entry_heap, st.alloc_entry, con.modifies, sf, "frame", "exit")
        if con.preserves:
            from .calls import preserve_formulas
            for n_, f_ in enumerate(preserve_formulas(I, con.preserves, sf, st.entry_heap)):
                st.oblige("frame", f"preserves{n_}", f_)
        if not con.allocates and not z3.eq(smt.simp(st.alloc), smt.simp(st.alloc_entry)):
            # objects were allocated: they must not be reachable afterwards unless the contract says `allocates`;
            # conservatively require the declaration
            st.oblige("frame", "no_allocation_declared", z3.BoolVal(False))
    finally:
        st.old_stack.pop()


def invariant_formula(I: Interp, name: str, sf: Frame):
    cls, cond = REG.invariants[name]
    return spec_bool(I, cond, sf)


# ------------------------------------------------------------------------------------------------- model decoding
PROBE_KEYS: list = []


def decode_val(model, st: State, t, depth=0, seen=None):
    """Evaluate a Val term in the model into a JSON-able description (follows object fields a few levels)."""
    v = model.eval(t, model_completion=True)
    d = v.decl().name() if z3.is_app(v) else ""
    if d == "none":
        return None
    if d == "int":
        return v.arg(0).as_long() if z3.is_int_value(v.arg(0)) else str(v.arg(0))
    if d == "bool":
        return z3.is_true(v.arg(0))
    if d == "real":
        a = v.arg(0)
        try:
            return float(a.as_fraction())
        except Exception:
            return str(a)
    if d == "str":
        PROBE_KEYS.append(v)  # strings seen while decoding: candidate dictionary keys for the second pass
        n = v.arg(0).as_long() if z3.is_int_value(v.arg(0)) else None
        lit = smt.STR.lit(n)
        return lit if lit is not None else f"<str#{n}>"
    if d == "ip":
        n = v.arg(0).as_long() if z3.is_int_value(v.arg(0)) else 0
        return {"$ip": ".".join(str((n >> s) & 255) for s in (24, 16, 8, 0))}
    if d == "ref":
        r = v.arg(0).as_long() if z3.is_int_value(v.arg(0)) else None
        return {"$ref": r}
    return str(v)


def decode_object(model, st: State, heap: dict, r: int, hint: Optional[T.Ty], depth, seen: dict):
    if r in seen or depth > 4:
        return {"$ref": r}
    if r is not None and r < 0:
        # enum member?
        for ci in Repo.get().all_classes():
            if ci.is_enum and not ci.is_int_enum:
                from .interp import enum_member_terms
                for n, term in enum_member_terms(ci).items():
                    if z3.is_true(model.eval(smt.rid(term) == r, model_completion=True)):
                        return {"$enum": f"{ci.name}.{n}"}
        return {"$ref": r}
    out: Dict[str, Any] = {"$ref": r}
    seen[r] = out
    cid_t = model.eval(z3.Select(heap["cls"], r), model_completion=True) if "cls" in heap else None
    cid = cid_t.as_long() if cid_t is not None and z3.is_int_value(cid_t) else None
    ci = None
    if hint is not None and T.strip_opt(hint).k == "obj":
        ci = T.strip_opt(hint).a[0]
        for c in ci.subclasses():
            if c.cid == cid:
                ci = c
    k = T.strip_opt(hint).k if hint is not None else None
    if k in ("list", "tuple") or cid in (-1, -4):
        n = model.eval(z3.Select(heap["llen"], r), model_completion=True) if "llen" in heap else None
        n = n.as_long() if n is not None and z3.is_int_value(n) else 0
        out["$list"] = []
        ety = T.strip_opt(hint).a[0] if hint is not None and T.strip_opt(hint).k == "list" and T.strip_opt(hint).a else None
        for i in range(min(n, 12)):
            el = z3.Select(z3.Select(heap["lel"], r), i)
            out["$list"].append(decode_deep(model, st, heap, el, ety, depth + 1, seen))
        out["$len"] = n
        if n > 12:  # long list: keep the tail too (x[-1] is a common read); the replay pads the middle
            out["$tail"] = [decode_deep(model, st, heap, z3.Select(z3.Select(heap["lel"], r), i), ety, depth + 1, seen) for i in (n - 2, n - 1)]
        return out
    if k in ("dict", "set") or cid in (-2, -3):
        n = model.eval(z3.Select(heap["dsz"], r), model_completion=True) if "dsz" in heap else None
        n = n.as_long() if n is not None and z3.is_int_value(n) else None
        out["$dict_size"] = n
        hk = T.strip_opt(hint) if hint is not None else None
        kty = hk.a[0] if hk is not None and hk.k in ("dict", "set") and hk.a else None
        vty = hk.a[1] if hk is not None and hk.k == "dict" and len(hk.a) > 1 else None
        if n is not None and "dhas" in heap and "dget" in heap:
            pairs = []
            # small dictionaries are listed in key order; of large (or unbounded) ones only the probed members are kept
            for i in range(n if ("dkeys" in heap and 0 <= n <= 8) else 0):
                kt = z3.Select(z3.Select(heap["dkeys"], r), i)
                vt = z3.Select(z3.Select(heap["dget"], r), kt)
                pairs.append([decode_deep(model, st, heap, kt, kty, depth + 1, seen), decode_deep(model, st, heap, vt, vty, depth + 1, seen)])
            # the well-formedness link between membership and the key sequence is only assumed where the code iterates;
            # keys the model makes members without listing them (typically literal string keys of a precondition) are added
            if kty is None or kty.k in ("str", "any"):
                shown = {json.dumps(p[0], default=str) for p in pairs}
                # strings met anywhere in the model during the first decoding pass (parameters, names, uuids) are likely keys too
                for kt in list(st.cfg.get("_probe_keys", [])):
                    if len(pairs) < 16:
                        if z3.is_true(model.eval(z3.Select(z3.Select(heap["dhas"], r), kt), model_completion=True)):
                            kd = decode_val(model, st, kt)
                            if json.dumps(kd, default=str) not in shown:
                                shown.add(json.dumps(kd, default=str))
                                pairs.append([kd, decode_deep(model, st, heap, z3.Select(z3.Select(heap["dget"], r), kt), vty, depth + 1, seen)])
                for sid, lit in list(smt.STR.rev.items()):
                    if lit.startswith("ev:") or lit.startswith("sentinel:") or len(pairs) >= 16:
                        continue
                    kt = smt.mk_str(sid)
                    if z3.is_true(model.eval(z3.Select(z3.Select(heap["dhas"], r), kt), model_completion=True)) and json.dumps(lit) not in shown:
                        vt = z3.Select(z3.Select(heap["dget"], r), kt)
                        pairs.append([lit, decode_deep(model, st, heap, vt, vty, depth + 1, seen)])
                out["$dict_size"] = max(n, len(pairs)) if 0 <= n <= 8 else len(pairs)
            out["$dict"] = pairs
        return out
    if ci is not None:
        out["$class"] = ci.name
        names = []
        for c in ci.mro():
            for fn, (ann, _d) in c.fields.items():
                if ann is not None and fn not in names and fn != "model_config":
                    names.append(fn)
        # attributes declared by `self.x: T = ...` in methods, or typed by the contracts (attr_types)
        extra = {}
        for c in ci.mro():
            for fn, ann in c.self_annotations().items():
                if fn not in names and fn not in extra:
                    extra[fn] = T.parse_ann(ann, c.module, c)
            for key, ann in list(REG.attr_types.items()) + list(st.cfg["contract"].attr_types.items() if st.cfg.get("contract") else []):
                cn, _, fn = key.partition(".")
                if cn == c.name and fn not in names and fn not in extra:
                    extra[fn] = T.parse_ann(parse_expr(ann), c.module, c)
        for fn in names + list(extra):
            key = "f:" + fn
            if key in heap:
                fty = T.field_type(ci, fn) or extra.get(fn)
                out[fn] = decode_deep(model, st, heap, z3.Select(heap[key], r), fty, depth + 1, seen)
    return out


def decode_deep(model, st, heap, t, hint, depth, seen):
    v = decode_val(model, st, t)
    if isinstance(v, dict) and "$ref" in v and v["$ref"] is not None:
        return decode_object(model, st, heap, v["$ref"], hint, depth, seen)
    if hint is not None and T.strip_opt(hint).k == "enum" and isinstance(v, int):
        ci = T.strip_opt(hint).a[0]
        for n, val in ci.enum_members().items():
            if val == v:
                return {"$enum": f"{ci.name}.{n}"}
    return v


def decode_model(model, st: State) -> dict:
    out = {}
    st.cfg["_probe_keys"] = []
    for _pass in (1, 2, 3, 4):  # later passes probe dictionaries with the strings the earlier ones met (until nothing new turns up)
        before = {k_.get_id() for k_ in st.cfg["_probe_keys"]}
        if _pass > 2 and before == getattr(decode_model, "_last", None):
            break
        decode_model._last = before
        del PROBE_KEYS[:]
        out = {"params": {}, "note": "entry state of the function as chosen by the solver"}
        seen: dict = {}
        for name, v in st.entry_params.items():
            if isinstance(v, SV):
                try:
                    out["params"][name] = decode_deep(model, st, st.entry_heap, v.t, v.ty, 0, seen)
                except Exception as e:  # decoding is best effort
                    out["params"][name] = f"<undecodable: {e}>"
        uniq = {}
        for k_ in PROBE_KEYS:
            uniq[k_.get_id()] = k_
        st.cfg["_probe_keys"] = list(uniq.values())[:40]
    return out


# ------------------------------------------------------------------------------------------------- discharge
def cvc5_check(assertions, timeout_s) -> str:
    smt2 = smt.to_smt2(assertions)
    with tempfile.NamedTemporaryFile("w", suffix=".smt2", delete=False) as f:
        f.write(smt2)
        path = f.name
    try:
        p = subprocess.run(["/usr/bin/cvc5", "--lang", "smt2", f"--tlimit={int(timeout_s * 1000)}", path],
                           capture_output=True, text=True, timeout=timeout_s + 5)
        out = p.stdout.strip().splitlines()
        return out[0] if out else "unknown"
    except Exception:
        return "unknown"
    finally:
        os.unlink(path)


def discharge(ob: Obligation, st: State, timeout_ms: int, use_cvc5: bool, both: bool) -> None:
    t0 = time.time()
    if z3.is_true(ob.goal):
        ob.status, ob.backend = "discharged", "simplifier"
        return
    assertions = list(ob.pc) + [z3.Not(ob.goal)]
    r, m = smt.check(assertions, timeout_ms)
    ob.backend = "z3"
    if r == "unsat":
        ob.status = "discharged"
        if both:
            r2 = cvc5_check(assertions, timeout_ms / 1000)
            if r2 == "sat":
                ob.status, ob.detail = "unknown", "solver disagreement: z3 unsat, cvc5 sat"
            ob.backend = "z3+cvc5" if r2 == "unsat" else "z3 (cvc5: %s)" % r2
    elif r == "sat":
        ob.status = "failed"
        try:
            ob.model = decode_model(m, st)
        except Exception as e:
            ob.model = {"error": f"model decoding failed: {e}"}
    else:
        ob.status, ob.detail = "unknown", str(m)
        if st.cfg.get("ground") and smt.LAST_CANDIDATE is not None:
            # refutation search only: keep the solver's candidate model; it counts for nothing unless the native replay
            # reproduces the failure with it
            try:
                ob.model = decode_model(smt.LAST_CANDIDATE, st)
                ob.detail = "candidate model (solver gave up on quantifiers): " + str(m)
            except Exception:
                ob.model = None
        if st.cfg.get("ground") and ob.model is None:
            # still nothing: look for a model of the quantifier-free part only (quantified assumptions and heap lambdas
            # dropped).  Such a model may violate the dropped assumptions; like every candidate it counts only when the
            # native replay, which re-checks the preconditions, reproduces the failure
            keep = st.cfg.get("_pc_requires", 0)  # the function's own preconditions always stay

            def true_quantifier(e):  # forall / exists (array lambdas are harmless for model search and stay)
                seen_, stack_ = set(), [e]
                while stack_:
                    x_ = stack_.pop()
                    if x_.get_id() in seen_:
                        continue
                    seen_.add(x_.get_id())
                    if z3.is_quantifier(x_) and not x_.is_lambda():
                        return True
                    stack_.extend(x_.children())
                    if z3.is_quantifier(x_):
                        stack_.append(x_.body())
                return False
            qf = [a_ for j_, a_ in enumerate(assertions) if j_ < keep or not true_quantifier(a_)]
            if len(qf) < len(assertions):
                r4, m4 = smt.check(qf, min(timeout_ms, 5000))
                if r4 == "sat":
                    try:
                        ob.model = decode_model(m4, st)
                        ob.detail = "candidate model (quantified assumptions dropped): " + str(m)
                    except Exception:
                        ob.model = None
        if st.cfg.get("ground") and ob.model is None:
            # bounded mode, still no model: second opinion of the z3 4.8.12 binary, whose scalar choices guide the library solver
            m5 = smt.cli_guided_model(assertions, max(timeout_ms, 45000))
            if m5 is not None:
                ob.status, ob.backend, ob.detail = "failed", "z3 (model search guided by /usr/bin/z3 4.8.12)", ""
                try:
                    ob.model = decode_model(m5, st)
                except Exception as e:
                    ob.model = {"error": f"model decoding failed: {e}"}
        # quantifier instantiation is sensitive to scheduling noise: before giving up, two more attempts with other
        # solver seeds and twice the time (a verdict must not flip because the machine is busy)
        for attempt in (() if st.cfg.get("ground") else (1, 2)):
            r3, m3 = smt.check(assertions, timeout_ms * 2, seed=attempt * 7919)
            if r3 == "unsat":
                ob.status, ob.detail, ob.backend = "discharged", f"z3 retry {attempt}", "z3"
                break
            if r3 == "sat":
                ob.status, ob.backend = "failed", "z3"
                try:
                    ob.model = decode_model(m3, st)
                except Exception as e:
                    ob.model = {"error": f"model decoding failed: {e}"}
                break
        if ob.status == "unknown" and use_cvc5:
            r2 = cvc5_check(assertions, timeout_ms / 1000)
            if r2 == "unsat":
                ob.status, ob.backend, ob.detail = "discharged", "cvc5", "z3 unknown"
            elif r2 == "sat":
                ob.status, ob.backend, ob.detail = "failed", "cvc5", "z3 unknown; cvc5 sat (no model decoded)"
    ob.secs = time.time() - t0


def verify_fuc(key: str, cfg: dict) -> FucResult:
    """Verify one function/region under contract.  Runs in a worker process."""
    res = FucResult(key)
    t0 = time.time()
    con = REG.contracts[key]
    try:
        base = key.split("#")[0]
        finfo = Repo.get().find(base)
        if isinstance(finfo, ClassInfo):
            raise Refuse(f"{key} names a class")
        res.file = finfo.module.relpath
        res.qualname = key.split("::", 1)[1]
        node = finfo.node if con.region is None else find_region(finfo, con.region)
        if isinstance(node, list):  # block region
            seg = "\n".join(ast.get_source_segment(finfo.module.text, n_) or "" for n_ in node)
            first_, last_ = node[0], node[-1]
        else:
            seg = ast.get_source_segment(finfo.module.text, node) or ""
            first_ = last_ = node
        import hashlib
        res.sha = hashlib.sha256(seg.encode()).hexdigest()
        res.lines = (first_.lineno, getattr(last_, "end_lineno", last_.lineno))
        work = [list(cfg.get("start_trace", []))]
        prefixes = []
        timeout_ms = cfg.get("timeout_ms", 10000)
        first = True
        budget = cfg.get("fuc_budget_s", 240)
        if con.budget_s and not cfg.get("ground"):
            budget = con.budget_s
        while work:
            if time.time() - t0 > budget:
                # out of time: what was explored stays (so that failing obligations still go through the refutation search);
                # the unexplored rest makes the function undecided, never proved
                res.obligations.append({"name": f"{res.qualname}.budget.paths_unexplored", "kind": "budget", "label": "paths_unexplored", "line": 0,
                                        "path": "-", "status": "unknown", "backend": "-", "secs": 0.0, "model": None, "smt_head": None,
                                        "detail": f"time budget of {budget}s for one function exceeded after {res.paths} paths; {len(work)} path prefixes unexplored"})
                break
            trace = work.pop()
            pcfg = dict(cfg)
            pcfg["contract"] = con
            pcfg["check_vacuity"] = first
            pcfg["_prefixes"] = prefixes
            pcfg["_cut"] = False
            st = State(trace, res.qualname, pcfg)
            st.path_id = "".join(str(x) for x in trace) or "-"
            I = Interp(st)
            try:
                run_path(I, finfo, con)
            except PathEnd:
                pass
            if pcfg.get("vacuous"):
                res.vacuous = True
                res.error = "precondition/invariant unsatisfiable (vacuous contract)"
                break
            first = False
            st.path_id = "".join(str(x) for x in st.trace) or "-"
            work.extend(st.alternatives)
            if cfg.get("enumerate_depth") is not None:
                if not pcfg["_cut"]:
                    prefixes.append(list(st.trace))  # a complete path shorter than the split depth
                continue
            res.paths += 1
            if pcfg.get("_infeasible_full"):
                res.infeasible_paths = getattr(res, "infeasible_paths", 0) + 1
            if res.paths > con.max_paths:
                raise Refuse(f"more than {con.max_paths} paths in {key}")
            for ob in st.obligations:
                ob.path = st.path_id
                if cfg.get("only_obligations") is not None and ob.name not in cfg["only_obligations"]:
                    continue  # refutation search: only the obligations that failed in the proof run are looked at
                if time.time() - t0 > budget * 1.5:
                    ob.status, ob.detail, ob.backend = "unknown", "function time budget exhausted", "-"
                else:
                    discharge(ob, st, timeout_ms, cfg.get("cvc5", True), cfg.get("both", False))
                res.obligations.append({"name": ob.name, "kind": ob.kind, "label": ob.label, "line": ob.line, "path": ob.path,
                                        "status": ob.status, "backend": ob.backend, "secs": round(ob.secs, 4),
                                        "detail": ob.detail, "model": ob.model,
                                        "smt_head": (str(ob.goal)[:300] if cfg.get("samples") else None)})
            if pcfg.get("vacuous_exit") and all(o["status"] == "discharged" for o in res.obligations if o["path"] == st.path_id):
                raise Refuse(f"path {st.path_id} reaches the function exit with a contradictory path condition although no obligation "
                             f"failed on it: an engine assumption or assumed contract is inconsistent (vacuous proof refused)")
            for l in st.log:
                if l not in res.log:
                    res.log.append(l)
            if cfg.get("stop_after_failures") and sum(1 for o in res.obligations if o["status"] == "failed") >= cfg["stop_after_failures"]:
                break
        if con.bounded and res.paths and getattr(res, "infeasible_paths", 0) >= res.paths and not res.error:
            res.error = "every path of the bounded stand-in has a contradictory path condition (vacuous: it checks nothing)"
    except Refuse as e:
        res.error = f"outside subset: {e}"
    except KeyError as e:
        res.error = f"contract does not attach: {e}"
    except Exception as e:  # engine crash
        res.error = f"engine crash: {type(e).__name__}: {e}\n{traceback.format_exc(limit=8)}"
    res.secs = time.time() - t0
    res.prefixes = prefixes if 'prefixes' in dir() else []
    return res
