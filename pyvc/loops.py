"""Loops (unrolled when concrete, cut at invariants otherwise), try/except, frame obligations."""
from __future__ import annotations

import ast
from typing import Any, Dict, List, Optional

import z3

from . import smt
from . import types as T
from .calls import ev_spec, havoc, parse_expr, spec_bool
from .contracts import REG
from .interp import (NOC, BreakEx, ContinueEx, Frame, Interp, PathEnd, PClass, PExt, PIter, PTuple, RaiseEx, Refuse,
                     ReturnEx, SV, const)
from .repo import ClassInfo
from .smt import Val

UNROLL_LIMIT = 40


def loop_ordinal(fr: Frame, node) -> int:
    root = fr.finfo.node if fr.finfo is not None else None
    f = fr
    while root is None and f is not None:
        root = f.finfo.node if f.finfo else None
        f = f.parent
    if root is None:
        return -1
    key = id(root)
    cache = _ord_cache.setdefault(key, {})
    if not cache:
        n = 0
        for x in ast.walk(root):
            pass
        for x in _preorder(root):
            if isinstance(x, (ast.For, ast.While)):
                cache[id(x)] = n
                n += 1
    return cache.get(id(node), -1)


_ord_cache: Dict[int, Dict[int, int]] = {}


def _preorder(node):
    yield node
    for c in ast.iter_child_nodes(node):
        yield from _preorder(c)


class Seq:
    """Abstract view of an iterable: length term and item(i)."""

    def __init__(self, n, item, concrete=None):
        self.n = n
        self.item = item
        self.concrete = concrete  # python list of values when fully concrete


def to_seq(I: Interp, it, node=None) -> Seq:
    st = I.st
    if isinstance(it, PTuple):
        return Seq(z3.IntVal(len(it.items)), lambda i: it.items[i], list(it.items))
    if isinstance(it, PIter):
        k = it.kind
        if k == "range":
            a = [I.num(x)[0] for x in it.a]
            if len(a) == 1:
                lo, hi = z3.IntVal(0), a[0]
            elif len(a) == 2:
                lo, hi = a
            else:
                raise Refuse("range with step")
            n = smt.simp(z3.If(hi > lo, hi - lo, 0))
            conc = None
            if z3.is_int_value(n) and z3.is_int_value(smt.simp(lo)) and n.as_long() <= UNROLL_LIMIT:
                conc = [const(smt.simp(lo).as_long() + j) for j in range(n.as_long())]
            return Seq(n, lambda i: SV(smt.mk_int(smt.simp(lo + i)), T.INT), conc)
        if k == "enumerate":
            inner = to_seq(I, it.a[0])
            start, _ = I.num(it.a[1])
            conc = None
            if inner.concrete is not None and z3.is_int_value(smt.simp(start)):
                s0 = smt.simp(start).as_long()
                conc = [PTuple([const(s0 + j), v]) for j, v in enumerate(inner.concrete)]
            return Seq(inner.n, lambda i: PTuple([SV(smt.mk_int(smt.simp(start + i)), T.INT), inner.item(i)]), conc)
        if k == "zip":
            seqs = [to_seq(I, x) for x in it.a]
            n = seqs[0].n
            for s in seqs[1:]:
                n = z3.If(s.n < n, s.n, n)
            n = smt.simp(n)
            conc = None
            if all(s.concrete is not None for s in seqs):
                conc = [PTuple(list(xs)) for xs in zip(*[s.concrete for s in seqs])]
            return Seq(n, lambda i: PTuple([s.item(i) for s in seqs]), conc)
        if k in ("keys", "values", "items"):
            d = it.a[0]
            return dict_seq(I, d, k)
        if k == "snapshot":
            kind, keys, get, n, ty = it.a
            kty = ty.a[0] if ty.a else T.ANY
            vty = ty.a[1] if ty.k == "dict" and len(ty.a) > 1 else T.ANY

            def item(i, kind=kind, keys=keys, get=get):
                kk = SV(smt.simp(z3.Select(keys, i)), kty)
                st.assume_wt(kk)
                if kind == "keys":
                    return kk
                vv = SV(smt.simp(z3.Select(get, kk.t)), vty)
                st.assume_wt(vv)
                return vv if kind == "values" else PTuple([kk, vv])
            conc = [item(z3.IntVal(j)) for j in range(n.as_long())] if z3.is_int_value(n) and n.as_long() <= UNROLL_LIMIT else None
            return Seq(n, item, conc)
        if k == "reversed":
            inner = to_seq(I, it.a[0])
            conc = list(reversed(inner.concrete)) if inner.concrete is not None else None
            return Seq(inner.n, lambda i: inner.item(smt.simp(inner.n - 1 - i)), conc)
        if k == "sorted":
            raise Refuse("iteration over sorted(...)")
        if k == "genexp":
            raise Refuse("iteration over generator expression")
    if isinstance(it, SV):
        ty = T.strip_opt(it.ty)
        if it.ty.k == "opt":
            st.oblige("safety", "iterate_none", z3.Not(smt.is_none(it.t)), getattr(node, "lineno", 0))
        if ty.k == "any":
            st.log.append("iteration over a value of undeclared type: taken to be a list (other iterables are not modelled)")
            I.safety("TypeError", "iterate_nonlist", smt.is_ref(it.t), getattr(node, "lineno", 0))
            it = SV(it.t, T.LIST(T.ANY))
            ty = it.ty
        if ty.k in ("list", "tuple"):
            n = I.list_len(it)
            conc = None
            if z3.is_int_value(n) and n.as_long() <= UNROLL_LIMIT:
                conc = []
                for j in range(n.as_long()):
                    v = I.list_get(it, z3.IntVal(j))
                    conc.append(v)

            def item(i, it=it):
                v = I.list_get(it, i)
                st.assume_wt(v)
                return v
            return Seq(n, item, conc)
        if ty.k == "dict":
            return dict_seq(I, it, "keys")
        if ty.k == "set":
            return dict_seq(I, it, "keys")
    raise Refuse(f"iteration over {getattr(it, 'ty', type(it).__name__)}")


def dict_seq(I: Interp, d: SV, kind) -> Seq:
    """Iteration over a dict/set: keys sequence dkeys[d][0..dsz) (insertion order for dicts, arbitrary for sets)."""
    st = I.st
    r = smt.rid(d.t)
    n = smt.simp(z3.Select(st.arr("dsz"), r))
    keys = z3.Select(st.arr("dkeys"), r)
    ty = T.strip_opt(d.ty)
    kty = ty.a[0] if ty.a else T.ANY
    vty = ty.a[1] if ty.k == "dict" and len(ty.a) > 1 else T.ANY
    has = z3.Select(st.arr("dhas"), r)
    I.assume_dict_wf(SV(d.t, ty if ty.k in ("dict", "set") else T.DICT()))

    def item(i):
        k = SV(smt.simp(z3.Select(keys, i)), kty)
        st.assume_wt(k)
        # instance of the well-formedness fact for this position (spares the solver the instantiation)
        st.assume(z3.Implies(z3.And(i >= 0, i < n), z3.Select(has, k.t)))
        if kind == "keys":
            return k
        v = I.dict_get(SV(d.t, ty), k)
        st.assume_wt(v)
        if kind == "values":
            return v
        return PTuple([k, v])

    conc = None
    if z3.is_int_value(n) and n.as_long() <= UNROLL_LIMIT:
        conc = [item(z3.IntVal(j)) for j in range(n.as_long())]
    sq = Seq(n, item, conc)
    sq.watch = r  # the dictionary must keep its size while it is being iterated (RuntimeError otherwise)
    return sq


def assigned_names(stmts) -> set:
    out = set()
    for s in stmts:
        for n in ast.walk(s):
            if isinstance(n, ast.Name) and isinstance(n.ctx, (ast.Store, ast.Del)):
                out.add(n.id)
            elif isinstance(n, ast.NamedExpr):
                out.add(n.target.id)
    return out


def havoc_locals(I: Interp, fr: Frame, names):
    st = I.st
    for nm in names:
        if nm in fr.locals:
            fr.locals[nm] = havoc_value(I, fr.locals[nm], nm)


def havoc_value(I: Interp, v, nm):
    st = I.st
    if isinstance(v, SV):
        return st.fresh_val("lv_" + nm, v.ty if v.ty.k != "none" else T.ANY)
    if isinstance(v, PTuple):
        return PTuple([havoc_value(I, x, nm) for x in v.items])
    return v


def loop_spec(I: Interp, fr: Frame, node):
    o = loop_ordinal(fr, node)
    con = fr.contract
    if con is not None and o in con.loops:
        return o, con.loops[o]
    return o, None


def top_modifies(I: Interp):
    top = I.st.cfg.get("contract")
    return (top.modifies if top is not None else None), I.st.cfg.get("spec_frame")


def exec_for(I: Interp, node: ast.For, fr: Frame):
    st = I.st
    it = I.ev(node.iter, fr)
    seq = to_seq(I, it, node)
    o, spec = loop_spec(I, fr, node)
    def size_kept():
        # Python raises "dictionary changed size during iteration" when the loop asks for the next item of a dict / set whose size
        # is no longer what it was when the iteration started
        if getattr(seq, "watch", None) is not None and not st.spec_depth:
            st.oblige("safety", "dict_changed_size_during_iteration", z3.Select(st.arr("dsz"), seq.watch) == seq.n, node.lineno)
    if seq.concrete is not None and spec is None:
        broke = False
        for v in seq.concrete:
            I.assign(node.target, v, fr)
            try:
                I.exec_block(node.body, fr)
            except ContinueEx:
                size_kept()
                continue
            except BreakEx:
                broke = True
                break
            size_kept()
        if not broke:
            I.exec_block(node.orelse, fr)
        return
    K = st.cfg.get("unroll")
    if K:
        # refutation mode: bounded unrolling, only states where the iterable has at most K elements
        st.assume(seq.n <= K)
        broke = False
        for j in range(K):
            if not st.branch(z3.IntVal(j) < seq.n):
                break
            I.assign(node.target, seq.item(z3.IntVal(j)), fr)
            try:
                I.exec_block(node.body, fr)
            except ContinueEx:
                size_kept()
                continue
            except BreakEx:
                broke = True
                break
            size_kept()
        if not broke:
            I.exec_block(node.orelse, fr)
        return
    if spec is None:
        raise Refuse(f"loop #{o} at line {node.lineno} in {fr.module.relpath} needs an invariant (symbolic length)")
    cut_loop(I, node, fr, o, spec, seq, None)


def exec_while(I: Interp, node: ast.While, fr: Frame):
    o, spec = loop_spec(I, fr, node)
    if spec is None:
        # bounded unrolling only when the condition becomes concretely false
        for _ in range(UNROLL_LIMIT):
            c = smt.simp(I.truthy(I.ev(node.test, fr)))
            if z3.is_false(c):
                I.exec_block(node.orelse, fr)
                return
            if not z3.is_true(c):
                raise Refuse(f"while loop #{o} at line {node.lineno} needs an invariant")
            try:
                I.exec_block(node.body, fr)
            except ContinueEx:
                continue
            except BreakEx:
                return
        raise Refuse("while loop unroll limit")
    cut_loop(I, node, fr, o, spec, None, node.test)


def cut_loop(I: Interp, node, fr: Frame, o: int, spec: dict, seq: Optional[Seq], test):
    st = I.st
    idx = spec.get("index", "_i")
    invs = spec["inv"]
    line = node.lineno

    def check_invs(kind):
        for label, e in invs:
            st.oblige("loopinv", f"{label}.{kind}@L{line}", spec_bool(I, e, fr), line)

    def assume_invs():
        for label, e in invs:
            st.assume(spec_bool(I, e, fr))

    # old() inside invariants refers to the function entry state
    st.old_stack.append(st.entry_heap)
    try:
        fr.locals[idx] = const(0)
        if seq is not None:
            fr.locals["_n"] = SV(smt.mk_int(seq.n), T.INT)
        check_invs("init")
        k = st.choose(2)
        # havoc
        names = assigned_names(node.body) | (assigned_names([ast.Expr(node.target)]) if seq is not None else set())
        names |= {n.id for n in ast.walk(node.target) if isinstance(n, ast.Name)} if seq is not None else set()
        names.discard(idx)
        havoc_locals(I, fr, names)
        head_heap = dict(st.heap)
        head_alloc = st.alloc
        mods = spec.get("modifies")
        if mods is None:
            mods, mframe = top_modifies(I)
            mframe = mframe or fr
        else:
            mframe = fr
        havoc(I, mods, mframe)
        topc = st.cfg.get("contract")
        if spec.get("allocates", topc.allocates if topc is not None else True):
            a2 = st.fresh("alloc", smt.I)
            st.assume(a2 >= st.alloc)
            st.alloc = a2
        head_heap = dict(st.heap)
        head_alloc = st.alloc
        iv = st.fresh("iter", smt.I)
        st.assume(iv >= 0)
        if seq is not None:
            st.assume(iv <= seq.n)
        fr.locals[idx] = SV(smt.mk_int(iv), T.INT)
        assume_invs()
        if not st.consistent():
            raise Refuse(f"loop invariant at line {line} is inconsistent with the loop-head state: vacuous proof refused")
        if k == 0:
            if seq is not None:
                st.assume(iv < seq.n)
                I.assign(node.target, seq.item(iv), fr)
            else:
                st.assume(I.truthy(I.ev(test, fr)))
            try:
                I.exec_block(node.body, fr)
            except ContinueEx:
                pass
            except BreakEx:
                fr.locals.pop(idx, None)
                return
            fr.locals[idx] = SV(smt.mk_int(smt.simp(iv + 1)), T.INT)
            check_invs("preserved")
            check_frame(I, head_heap, head_alloc, mods, mframe, "loopframe", f"L{line}")
            raise PathEnd()
        else:
            if seq is not None:
                st.assume(iv == seq.n)
            else:
                st.assume(z3.Not(I.truthy(I.ev(test, fr))))
            fr.locals.pop(idx, None)
            I.exec_block(node.orelse, fr)
    finally:
        st.old_stack.pop()


# ------------------------------------------------------------------------------------------------- frames
def allowed_locations(I: Interp, mods: Optional[List[str]], sf: Frame):
    """Return (all: bool, fields: {key: None|[refs]}, conts: None|[refs]) describing what `mods` lets change."""
    st = I.st
    fields: Dict[str, Any] = {}
    lists: List[Any] = []
    dicts: List[Any] = []
    if mods is None:
        return True, fields, lists, dicts
    st.old_stack.append(st.entry_heap)
    saved = st.heap
    try:
        for m in mods:
            m = m.strip()
            if m == "heap":
                return True, fields, lists, dicts
            if m == "alloc":
                continue
            if m.endswith("[*]") or m.endswith("{*}"):
                base = ev_spec(I, m[:-3], sf)
                (lists if m.endswith("[*]") else dicts).append(smt.rid(base.t))
                continue
            tree = parse_expr(m)
            if isinstance(tree, ast.Attribute):
                head = tree.value
                key = "f:" + tree.attr
                if isinstance(head, ast.Name) and head.id in ("_", "ANY"):
                    fields[key] = None
                    continue
                from .calls import class_named
                ci = class_named(head, sf)
                if ci is not None:
                    if not (key in fields and fields[key] is None):
                        fields.setdefault(key, []).append(("cls", ci))
                    continue
                base = ev_spec(I, ast.unparse(head), sf)
                if key in fields and fields[key] is None:
                    continue
                fields.setdefault(key, []).append(smt.rid(base.t))
                continue
            raise Refuse(f"modifies clause {m}")
    finally:
        st.old_stack.pop()
    return False, fields, lists, dicts


def check_frame(I: Interp, base_heap: dict, base_alloc, mods, sf: Frame, kind: str, label: str):
    st = I.st
    allow_all, fields, lists, dicts = allowed_locations(I, mods, sf)
    if allow_all:
        return
    r = z3.Int("r!frame")
    for key, cur in list(st.heap.items()):
        if key in ("cls", "ctag") or key.startswith("g:") or key.startswith("__") or key.startswith("f:$"):
            continue
        old = base_heap.get(key)
        if old is None:
            old = st.entry_heap.get(key)
        if old is None or cur is old or z3.eq(cur, old):
            continue
        if key.startswith("f:"):
            if key in fields and fields[key] is None:
                continue
            refs = fields.get(key, [])
        elif key in ("lel", "llen"):
            refs = lists
        else:
            refs = dicts
        excl = [(z3.Not(st.subclass_pred(z3.Select(st.arr("cls"), r), x[1])) if isinstance(x, tuple) else r != x) for x in refs]
        goal = z3.ForAll([r], z3.Implies(z3.And(r > 0, r < base_alloc, *excl), z3.Select(cur, r) == z3.Select(old, r)))
        st.oblige(kind, f"{label}.{key}", goal)


# ------------------------------------------------------------------------------------------------- try / except
def exec_try(I: Interp, node: ast.Try, fr: Frame):
    """Only `try: <body> except <Names>: <handler>` where raises inside body come from explicit `raise` statements
    or failing safety checks that the engine can attribute (IndexError/KeyError on a subscript)."""
    st = I.st
    if node.finalbody:
        raise Refuse("try/finally")
    names = set()
    for h in node.handlers:
        if h.type is None:
            names.add("Exception")
        elif isinstance(h.type, ast.Name):
            names.add(h.type.id)
        elif isinstance(h.type, ast.Tuple):
            names |= {e.id for e in h.type.elts if isinstance(e, ast.Name)}
        else:
            raise Refuse("except clause shape")
    catch_stack = st.cfg.setdefault("_catch", [])
    catch_stack.append(names)
    try:
        try:
            I.exec_block(node.body, fr)
        finally:
            catch_stack.pop()
    except RaiseEx as e:
        for h in node.handlers:
            hn = {"Exception"} if h.type is None else ({h.type.id} if isinstance(h.type, ast.Name) else {x.id for x in h.type.elts})
            if e.exc_name in hn or "Exception" in hn or "BaseException" in hn:
                if h.name:
                    fr.locals[h.name] = st.fresh_val("exc", T.ANY)
                I.exec_block(h.body, fr)
                return
        raise
    I.exec_block(node.orelse, fr)
