"""Calls: special spec forms, builtins, container methods, library models, constructors, inlining and call-by-contract."""
from __future__ import annotations

import ast
from typing import Any, Dict, List, Optional

import z3

from . import smt
from . import types as T
from .contracts import REG, Contract
from .interp import (ALLOC_BASE, DICT_CID, LIST_CID, LOG_CLASSES, NOC, SET_CID, TUPLE_CID, BreakEx, ContinueEx, Frame,
                     Interp, PathEnd, PBound, PClass, PContainerMethod, PExt, PFunc, PIter, PLog, PMod, PSuper, PTuple,
                     RaiseEx, Refuse, ReturnEx, SV, class_of_value, const, enum_member_terms, single_return_expr)
from .repo import ClassInfo, FuncInfo
from .smt import Val

_parse_cache: Dict[str, ast.AST] = {}


def parse_expr(s: str):
    if s not in _parse_cache:
        _parse_cache[s] = ast.parse("(" + s.strip() + ")", mode="eval").body
    return _parse_cache[s]


def ev_spec(I: Interp, expr: str, fr: Frame):
    I.st.spec_depth += 1
    try:
        return I.ev(parse_expr(expr), fr)
    finally:
        I.st.spec_depth -= 1


def spec_bool(I: Interp, expr: str, fr: Frame):
    return I.truthy(ev_spec(I, expr, fr))


# --------------------------------------------------------------------------------------------- call evaluation
def eval_call(I: Interp, node: ast.Call, fr: Frame):
    st = I.st
    f = node.func
    if isinstance(f, ast.Name) and not fr.has(f.id):
        n = f.id
        if n == "old":
            if not st.old_stack:
                raise Refuse("old() outside a postcondition")
            saved = st.heap
            st.heap = st.old_stack[-1]
            top = st.old_stack.pop()
            saved_ep, saved_ev = st.epoch, st.events_len
            st.epoch = st.heap.get("__epoch__", st.epoch_entry)
            st.events_len = st.heap.get("__evlen__", st.events_len_entry)
            try:
                return I.ev(node.args[0], fr)
            finally:
                st.epoch, st.events_len = saved_ep, saved_ev
                st.old_stack.append(top)
                # arrays lazily created while evaluating under the old heap belong to both
                for k, v in st.heap.items():
                    if not k.startswith("__"):
                        saved.setdefault(k, v)
                st.heap = saved
        if n in ("forall", "exists"):
            return quantifier(I, node, fr, n)
        if n in ("forall_obj", "exists_obj"):
            return quantifier_obj(I, node, fr, n)
        if n == "implies":
            a = I.truthy(I.ev(node.args[0], fr))
            st.guards.append(a)
            try:
                b = I.truthy(I.ev(node.args[1], fr))
            finally:
                st.guards.pop()
            return I.as_bool_sv(z3.Implies(a, b))
        if n == "iff":
            a = I.truthy(I.ev(node.args[0], fr))
            b = I.truthy(I.ev(node.args[1], fr))
            return I.as_bool_sv(a == b)
        if n == "ite":
            c = I.truthy(I.ev(node.args[0], fr))
            return I.merge(c, I.ev(node.args[1], fr), I.ev(node.args[2], fr))
        if n == "epoch":
            return SV(smt.mk_int(st.epoch), T.INT)
        if n == "n_events":
            return SV(smt.mk_int(st.events_len), T.INT)
        if n in ("event_kind", "event_arg"):  # ghost event log: event_kind(i) is a string, event_arg(i, k) the k-th argument
            i_, _ = I.num(I.ev(node.args[0], fr))
            if n == "event_kind":
                return SV(z3.Select(_evarr(st, "evk"), i_), T.ANY)
            kk = I.ev(node.args[1], fr).c
            return SV(z3.Select(_evarr(st, f"eva{kk}"), i_), T.ANY)
        if n == "ev":  # ev("name"): the value event_kind() has for events of that name
            return SV(smt.mk_int(smt.STR.id("ev:" + I.ev(node.args[0], fr).c)), T.ANY)
        if n == "unchanged":  # no object that existed at entry has been written
            old_ep = st.old_stack[-1].get("__epoch__", st.epoch_entry) if st.old_stack else st.epoch_entry
            if st.old_stack and st.old_stack[-1].get("__unchanged__") is not None:
                return I.as_bool_sv(z3.And(st.old_stack[-1]["__unchanged__"], st.epoch == old_ep))
            return I.as_bool_sv(st.epoch == old_ep)
        if n == "member":  # member(space, x): x is an element of the gymnasium space (library model, see lib.py)
            from .interp import PSpace
            sp = I.ev(node.args[0], fr)
            x = I.to_sv(I.ev(node.args[1], fr))
            if not isinstance(sp, PSpace):
                raise Refuse("member(): first argument is not a gymnasium space the engine could build")
            return I.as_bool_sv(space_member(I, sp, x))
        if n == "is_enum_value":  # is_enum_value(x, EnumClass): x is the .value of some member (members read from the real class)
            x = I.to_sv(I.ev(node.args[0], fr))
            cls = I.ev(node.args[1], fr)
            if not isinstance(cls, PClass) or not cls.ci.is_enum:
                raise Refuse("is_enum_value(): second argument is not an enum class of the repository")
            alts = []
            for _nm, val in cls.ci.enum_members().items():
                if isinstance(val, bool) or not isinstance(val, (int, str)):
                    raise Refuse(f"is_enum_value(): member value {val!r} of {cls.ci.name} is not an int/str literal")
                alts.append(x.t == const(val).t)
            return I.as_bool_sv(z3.Or(*alts))
        if n == "seq":  # abstract value of a list's content (uninterpreted function of elements array and length)
            a0 = node.args[0]
            if isinstance(a0, ast.Subscript) and isinstance(a0.slice, ast.Slice):
                base = I.to_sv(I.ev(a0.value, fr))
                return SV(I.slice_seqid(base, a0.slice, fr), T.EXT("ghost"))
            v = I.to_sv(I.ev(a0, fr))
            # content identity of a container; non-references stand for themselves; an empty dict literal is EMPTY
            return SV(z3.If(smt.is_ref(v.t), z3.Select(st.arr("f:$seq"), smt.rid(v.t)), v.t), T.EXT("ghost"))
        if n in REG.ufuns:
            nargs, ret = REG.ufuns[n]
            args = [I.to_sv(I.ev(a, fr)).t for a in node.args]
            if len(args) != nargs:
                raise Refuse(f"ufun {n}: arity")
            F = z3.Function("uf_" + n, *([smt.Val] * nargs + [smt.Val]))
            rty = {"bool": T.BOOL, "int": T.INT, "str": T.STR}.get(ret, T.EXT("ghost"))
            res = SV(F(*args), rty)
            if rty.k != "ext":
                w = st.wt(rty, res.t)
                if w is not None:
                    st.assume(w)
            return res
        if n == "plen":
            from .lib import plen_term
            m = I.to_sv(I.ev(node.args[0], fr))
            return SV(smt.mk_int(plen_term(st, smt.ipval(m.t))), T.INT)
        if n == "in_net":
            from .lib import in_net_term
            x, a, m = [I.to_sv(I.ev(q, fr)) for q in node.args]
            return I.as_bool_sv(in_net_term(st, smt.ipval(x.t), smt.ipval(a.t), smt.ipval(m.t)))
        if n == "valid_mask":
            from .lib import valid_mask_term
            m = I.to_sv(I.ev(node.args[0], fr))
            return I.as_bool_sv(valid_mask_term(smt.ipval(m.t)))
        if n in ("dict_key", "dict_val"):  # j-th key / value of a dict in iteration (insertion) order
            d = I.to_sv(I.ev(node.args[0], fr))
            j, _ = I.num(I.ev(node.args[1], fr))
            dty = T.strip_opt(d.ty)
            I.assume_dict_wf(SV(d.t, dty if dty.k in ("dict", "set") else T.DICT()))
            k = SV(z3.Select(z3.Select(st.arr("dkeys"), smt.rid(d.t)), j), dty.a[0] if dty.k == "dict" and dty.a else T.ANY)
            if n == "dict_key":
                return k
            v = I.dict_get(SV(d.t, dty if dty.k == "dict" else T.DICT()), k)
            st.assume_wt(v)
            return v
        if n == "cast":  # cast(x, "Annotation"): view a value through a static type (spec only; no assumption is made)
            v = I.to_sv(I.ev(node.args[0], fr))
            ann = I.ev(node.args[1], fr).c
            return SV(v.t, T.parse_ann(parse_expr(ann), fr.module, fr.cls), v.c)
        if n == "psum":  # psum(k, lo, hi, body) = sum of body for k in [lo, hi): a function F with F(lo)=0, F(k+1)=F(k)+body(k)
            name = node.args[0].id
            lo, _ = I.num(I.ev(node.args[1], fr))
            hi, _ = I.num(I.ev(node.args[2], fr))
            kv = z3.Int(f"{name}!ps{id(node) % 10**9}")
            qf = Frame(fr.module, fr.cls, fr.selfv, fr.finfo, fr, fr.contract)
            qf.locals[name] = SV(smt.mk_int(kv), T.INT)
            st.binder_asms.append([])
            st.spec_depth += 1
            try:
                body, isr = I.num(I.to_sv(I.ev(node.args[3], qf)))
            finally:
                st.spec_depth -= 1
                asms = st.binder_asms.pop()
            if not isr:
                body = z3.ToReal(body)
            rng = kv >= lo
            for a_ in asms:
                st.assume(z3.ForAll([kv], z3.Implies(rng, a_)))
            F = z3.Function(f"psum!{body.get_id()}", smt.I, smt.R)
            key = ("psum", body.get_id(), smt.simp(lo).get_id())
            done = st.cfg.setdefault("_psum_done", set())
            if key not in done:
                done.add(key)
                st.assume(F(lo) == 0)
                Kg = st.cfg.get("ground")
                if Kg:
                    for c_ in range(Kg + 1):
                        at = smt.simp(lo + c_)
                        st.assume(F(at + 1) == F(at) + z3.substitute(body, (kv, at)))
                else:
                    st.assume(z3.ForAll([kv], z3.Implies(rng, F(kv + 1) == F(kv) + body)))
            return SV(smt.mk_real(F(hi)), T.FLOAT)
        if n == "same_dict_except":  # same_dict_except(d, k): every key other than k is in d with the value it had in the old state (and vice versa)
            d = I.to_sv(I.ev(node.args[0], fr))
            kx = I.to_sv(I.ev(node.args[1], fr))
            old_h = st.old_stack[-1] if st.old_stack else st.entry_heap
            r = smt.rid(d.t)
            x = z3.Const(f"x!sde{id(node) % 10**9}", smt.Val)
            has_n, has_o = z3.Select(st.arr("dhas"), r), z3.Select(old_h.get("dhas", st.arr("dhas")), r)
            get_n, get_o = z3.Select(st.arr("dget"), r), z3.Select(old_h.get("dget", st.arr("dget")), r)
            return I.as_bool_sv(z3.ForAll([x], z3.Implies(x != kx.t, z3.And(z3.Select(has_n, x) == z3.Select(has_o, x),
                                                                          z3.Implies(z3.Select(has_n, x), z3.Select(get_n, x) == z3.Select(get_o, x))))))
        if n == "same_dict":  # same_dict(d): the dict object d has the contents (keys, values, order) it had in the old state
            d = I.to_sv(I.ev(node.args[0], fr))
            old_h = st.old_stack[-1] if st.old_stack else st.entry_heap
            r = smt.rid(d.t)
            parts = []
            for k in ("dhas", "dget", "dsz", "dkeys"):
                cur, was = st.arr(k), old_h.get(k, st.entry_heap.get(k))
                if was is not None and not z3.eq(cur, was):
                    parts.append(z3.Select(cur, r) == z3.Select(was, r))
            return I.as_bool_sv(z3.And(*parts) if parts else z3.BoolVal(True))
        if n == "fresh":  # fresh(x): x was allocated during this call
            v = I.to_sv(I.ev(node.args[0], fr))
            base = st.fresh_base[-1] if st.fresh_base else st.alloc_entry
            return I.as_bool_sv(z3.And(smt.is_ref(v.t), smt.rid(v.t) >= base, smt.rid(v.t) < st.alloc))
        if n == "bit":  # bit(x, i): i-th bit of a 32-bit non-negative integer, i concrete
            x, _ = I.num(I.to_sv(_as_intlike(I, I.ev(node.args[0], fr))))
            i = I.ev(node.args[1], fr)
            if not (isinstance(i, SV) and isinstance(i.c, int)):
                raise Refuse("bit(x, i) needs a concrete i")
            return SV(smt.mk_int(z3.BV2Int(z3.Extract(i.c, i.c, z3.Int2BV(x, 32)), False)), T.INT)
        if n in REG.specs:
            sp = REG.specs[n]
            args = [I.ev(a, fr) for a in node.args]
            if len(args) != len(sp.params):
                raise Refuse(f"spec {n}: arity")
            sf = Frame(fr.module, fr.cls, fr.selfv, fr.finfo, None, fr.contract)
            sf.locals.update(dict(zip(sp.params, args)))
            if "result" in fr.locals:
                sf.locals.setdefault("result", fr.locals["result"])
            top = st.cfg.get("contract")
            revealed = (not sp.opaque) or (top is not None and n in top.reveal) or bool(st.cfg.get("ground"))
            app = None
            if sp.opaque:
                from .smt import Val
                f = z3.Function("spec_" + n, *([Val] * len(args) + [Val]))
                rty = {"bool": T.BOOL, "int": T.INT, "float": T.FLOAT, "str": T.STR}.get(sp.ret, T.ANY)
                app = SV(f(*[I.to_sv(a).t for a in args]), rty)
                w = st.wt(rty, app.t)
                if w is not None:
                    st.assume(w)
                if not revealed:
                    return app
            st.spec_depth += 1
            try:
                body = I.ev(sp.tree, sf)
            finally:
                st.spec_depth -= 1
            if app is not None:
                st.assume(I.eq(app, I.to_sv(body)))
                return app
            return body
        if n == "super":
            return PSuper(fr.cls, fr.selfv)
    callee = I.ev(f, fr)
    if isinstance(callee, PLog):
        return const(None)
    args, kwargs = [], {}
    for a in node.args:
        if isinstance(a, ast.Starred):
            v = I.ev(a.value, fr)
            if isinstance(v, PTuple):
                args.extend(v.items)
            else:
                raise Refuse("*args with non-tuple")
        else:
            args.append(I.ev(a, fr))
    for k in node.keywords:
        if k.arg is None:
            v = I.ev(k.value, fr)
            if isinstance(v, dict):
                kwargs.update(v)
            elif isinstance(v, PKwargs):
                kwargs.update(v.d)
            else:
                raise Refuse("**kwargs with symbolic mapping")
        else:
            kwargs[k.arg] = I.ev(k.value, fr)
    return apply_callable(I, callee, args, kwargs, fr, node)


def _as_intlike(I, v):
    if isinstance(v, SV) and T.strip_opt(v.ty).k == "ip":
        return SV(smt.mk_int(smt.ipval(v.t)), T.INT)
    return v


class PKwargs:
    """**kwargs: python-side mapping of keyword -> value.  `entry` marks the kwargs of the function under contract:
    a keyword read there that the contract gives a type for (types={"kwargs.<name>": T}) is a symbolic value of that
    type (the contract thereby assumes the keyword is passed); any other keyword is absent."""

    def __init__(self, d, entry=None):
        self.d = d
        self.entry = entry  # None, or the dict of declared keyword types


class PKwGet:
    def __init__(self, kw):
        self.kw = kw


def kwargs_get(I, pk: "PKwargs", args, fr):
    st = I.st
    key = I.to_sv(args[0])
    kt = smt.simp(key.t)
    name = None
    if z3.is_app(kt) and kt.decl().name() == "str" and z3.is_int_value(kt.arg(0)):
        name = smt.STR.lit(kt.arg(0).as_long())
    if name is None:
        raise Refuse("kwargs.get with a computed key")
    if name in pk.d:
        return pk.d[name]
    if pk.entry is not None and name in pk.entry:
        from .types import parse_ann
        con = st.cfg["contract"]
        ty = pk.entry[name]
        v = SV(z3.Const(f"kw_{name}", Val), ty)
        st.assume_wt(v)
        pk.d[name] = v
        return v
    return I.to_sv(args[1]) if len(args) > 1 else const(None)


def apply_callable(I: Interp, callee, args, kwargs, fr, node=None):
    st = I.st
    if isinstance(callee, PLog):
        return const(None)
    if isinstance(callee, PBound):
        if callee.selfv is None and callee.finfo.cls is not None and not callee.finfo.is_staticmethod and not callee.finfo.is_classmethod \
                and args and isinstance(args[0], SV):
            # unbound method with an explicit receiver: Class.method(obj, ...)
            return call_function(I, callee.finfo, args[0], list(args[1:]), kwargs, fr, node, callee.exact)
        return call_function(I, callee.finfo, callee.selfv, args, kwargs, fr, node, callee.exact)
    if isinstance(callee, PFunc):
        return call_closure(I, callee, args, kwargs, fr, node)
    if isinstance(callee, PClass):
        return construct(I, callee.ci, args, kwargs, fr, node)
    if isinstance(callee, PExt):
        from .lib import call_ext
        return call_ext(I, callee.name, args, kwargs, fr, node)
    if isinstance(callee, PKwGet):
        return kwargs_get(I, callee.kw, args, fr)
    if isinstance(callee, PContainerMethod):
        from .lib import call_container_method
        return call_container_method(I, callee.recv, callee.name, args, kwargs, fr, node)
    if isinstance(callee, SV):
        if isinstance(callee.c, tuple) and callee.c[0] == "callable":
            target = st.cfg["_callables"][callee.c[1]]
            return apply_callable(I, target, args, kwargs, fr, node)
        if T.strip_opt(callee.ty).k == "obj":
            if callee.ty.k == "opt":
                st.oblige("safety", "call_of_none", z3.Not(smt.is_none(callee.t)), getattr(node, "lineno", 0))
            m = T.strip_opt(callee.ty).a[0].find_method("__call__")
            if m is not None:
                return call_function(I, m, SV(callee.t, T.strip_opt(callee.ty)), args, kwargs, fr, node)
        if callee.ty.k in ("callable", "any"):
            return dynamic_call(I, callee, args, kwargs, fr, node)
        if callee.ty.k == "type" and callee.ty.a and callee.ty.a[0].k == "obj":
            # a class object taken from a registry: constructing it yields a new object of (a subclass of) the declared base;
            # its fields are unknown, the construction is assumed to have no other effect
            ci = callee.ty.a[0].a[0]
            st.log.append(f"construction through a class object of type Type[{ci.name}]: a new object of that family with unknown fields, no other effect (assumed)")
            r = st.new_ref(ci.cid)
            cid = st.fresh("dyn_cid", smt.I)
            st.assume(st.subclass_pred(cid, ci))
            st.heap["cls"] = z3.Store(st.arr("cls"), r, cid)
            return SV(smt.mk_ref(r), callee.ty.a[0])
        if callee.ty.k == "type" and callee.ty.a and callee.ty.a[0].k == "enum":
            # Type[E] for an enumeration E with members: E cannot be subclassed, so the class object is E itself -- unless E is the abstract
            # head of a family of look-alike enumerations (it declares an abstract method), whose class objects are other classes
            eci = callee.ty.a[0].a[0]
            if not any("abstractmethod" in d for m_ in eci.methods.values() for d in m_.decorators):
                return construct(I, eci, args, kwargs, fr, node)
        raise Refuse(f"call of symbolic value of type {callee.ty} at line {getattr(node, 'lineno', '?')}")
    raise Refuse(f"call of {type(callee).__name__}")


def dynamic_call(I: Interp, callee: SV, args, kwargs, fr, node):
    """Call of a value only known to be callable.  The contract of the function under verification may name classes
    whose instances are called through their own `__call__` contract (`dyn_classes`); anything else is an unknown
    callable: it may do anything to the heap (havoc), and a `handler` event is logged."""
    from .lib import isinstance_pred
    st = I.st
    top: Contract = st.cfg.get("contract")
    for cname in (top.dyn_classes if top is not None else []):
        ci = I.repo.class_by_name(cname)
        m = ci.find_method("__call__")
        if st.branch(isinstance_pred(I, callee, PClass(ci))):
            return call_function(I, m, SV(callee.t, T.OBJ(ci)), args, kwargs, fr, node)
    st.log.append("unknown callable invoked: heap havocked, result unconstrained, `handler` event logged")
    havoc(I, ["heap"], fr)
    append_event(st, "handler", [callee.t])
    rty = T.ANY
    if top is not None and top.dyn_result:
        rty = T.parse_ann(parse_expr(top.dyn_result), fr.module, fr.cls)
        st.log.append(f"unknown callable assumed to return {top.dyn_result}")
    return st.fresh_val("dyn_ret", rty)


def quantifier(I: Interp, node, fr, which):
    st = I.st
    if len(node.args) != 4 or not isinstance(node.args[0], ast.Name):
        raise Refuse(f"{which}(i, lo, hi, body) expected")
    name = node.args[0].id
    lo, _ = I.num(I.ev(node.args[1], fr))
    hi, _ = I.num(I.ev(node.args[2], fr))
    lo, hi = smt.simp(lo), smt.simp(hi)
    if z3.is_int_value(lo) and z3.is_int_value(hi) and hi.as_long() - lo.as_long() <= 64:
        parts = []
        for c in range(lo.as_long(), hi.as_long()):
            qf = Frame(fr.module, fr.cls, fr.selfv, fr.finfo, fr, fr.contract)
            qf.locals[name] = const(c)
            st.spec_depth += 1
            try:
                parts.append(I.truthy(I.ev(node.args[3], qf)))
            finally:
                st.spec_depth -= 1
        if which == "forall":
            return I.as_bool_sv(z3.And(*parts) if parts else z3.BoolVal(True))
        return I.as_bool_sv(z3.Or(*parts) if parts else z3.BoolVal(False))
    K = st.cfg.get("ground")
    if K:
        # refutation mode: search only states where this range has at most K elements, expand the quantifier
        st.assume(hi - lo <= K)
        parts = []
        for c in range(K):
            qf = Frame(fr.module, fr.cls, fr.selfv, fr.finfo, fr, fr.contract)
            at = smt.simp(lo + c)
            qf.locals[name] = SV(smt.mk_int(at), T.INT)
            g = at < hi
            st.guards.append(g)
            st.spec_depth += 1
            try:
                b = I.truthy(I.ev(node.args[3], qf))
            finally:
                st.spec_depth -= 1
                st.guards.pop()
            parts.append(z3.Implies(g, b) if which == "forall" else z3.And(g, b))
        return I.as_bool_sv(z3.And(*parts) if which == "forall" else z3.Or(*parts))
    st.n_fresh += 1
    # bound-variable names are tied to the quantifier's place in the spec text, so the same spec evaluated twice in
    # the same state yields the very same term
    iv = z3.Int(f"{name}!q{id(node) % 10**9}")
    qf = Frame(fr.module, fr.cls, fr.selfv, fr.finfo, fr, fr.contract)
    qf.locals[name] = SV(smt.mk_int(iv), T.INT)
    rng = z3.And(lo <= iv, iv < hi)
    st.binder_asms.append([])
    st.spec_depth += 1
    try:
        body = I.truthy(I.ev(node.args[3], qf))
    finally:
        st.spec_depth -= 1
        asms = st.binder_asms.pop()
    for a in asms:
        st.assume(z3.ForAll([iv], z3.Implies(rng, a)))
    if which == "forall":
        return I.as_bool_sv(z3.ForAll([iv], z3.Implies(rng, body)))
    return I.as_bool_sv(z3.Exists([iv], z3.And(rng, body)))


def quantifier_obj(I: Interp, node, fr, which):
    st = I.st
    name = node.args[0].id
    cls = I.ev(node.args[1], fr)
    if not isinstance(cls, PClass):
        raise Refuse("forall_obj: class expected")
    if st.cfg.get("ground") and st.cfg.get("ground_objs"):
        parts = []
        seen = set()
        for term, ci in list(st.objs):
            if not (ci.is_subclass_of(cls.ci) or cls.ci.is_subclass_of(ci)):
                continue
            key = term.get_id()
            if key in seen:
                continue
            seen.add(key)
            rr = smt.rid(term)
            g = z3.And(smt.is_ref(term), rr > 0, rr < st.alloc, st.subclass_pred(z3.Select(st.arr("cls"), rr), cls.ci))
            qf = Frame(fr.module, fr.cls, fr.selfv, fr.finfo, fr, fr.contract)
            qf.locals[name] = SV(term, T.OBJ(cls.ci))
            st.guards.append(g)
            st.spec_depth += 1
            try:
                b = I.truthy(I.ev(node.args[2], qf))
            finally:
                st.spec_depth -= 1
                st.guards.pop()
            parts.append(z3.Implies(g, b) if which == "forall_obj" else z3.And(g, b))
        if which == "forall_obj":
            return I.as_bool_sv(z3.And(*parts) if parts else z3.BoolVal(True))
        return I.as_bool_sv(z3.Or(*parts) if parts else z3.BoolVal(False))
    st.n_fresh += 1
    rv = z3.Int(f"{name}!o{id(node) % 10**9}")
    qf = Frame(fr.module, fr.cls, fr.selfv, fr.finfo, fr, fr.contract)
    qf.locals[name] = SV(smt.mk_ref(rv), T.OBJ(cls.ci))
    rng = z3.And(rv > 0, rv < st.alloc, st.subclass_pred(z3.Select(st.arr("cls"), rv), cls.ci))
    st.binder_asms.append([])
    st.spec_depth += 1
    try:
        body = I.truthy(I.ev(node.args[2], qf))
    finally:
        st.spec_depth -= 1
        asms = st.binder_asms.pop()
    for a in asms:
        st.assume(z3.ForAll([rv], z3.Implies(rng, a)))
    if which == "forall_obj":
        return I.as_bool_sv(z3.ForAll([rv], z3.Implies(rng, body)))
    return I.as_bool_sv(z3.Exists([rv], z3.And(rng, body)))


# --------------------------------------------------------------------------------------------- parameter binding
def bind_params(I: Interp, fnode, nf: Frame, selfv, args, kwargs, is_method, owner_module, owner_cls, refine=True):
    a = fnode.args
    params = [p.arg for p in a.posonlyargs + a.args]
    anns = {p.arg: p.annotation for p in a.posonlyargs + a.args + a.kwonlyargs}
    vals: Dict[str, Any] = {}
    pos = list(args)
    if is_method:
        if not params:
            raise Refuse("method without self")
        vals[params[0]] = selfv
        params = params[1:]
    if len(pos) > len(params) and a.vararg is None:
        raise Refuse(f"too many positional arguments for {getattr(fnode, 'name', '<lambda>')}")
    for p, v in zip(params, pos):
        vals[p] = v
    extra_pos = pos[len(params):]
    if a.vararg is not None:
        vals[a.vararg.arg] = PTuple(extra_pos)
    kw = dict(kwargs)
    for p in params[len(pos):] + [k.arg for k in a.kwonlyargs]:
        if p in kw:
            vals[p] = kw.pop(p)
    # defaults
    dfl = a.defaults
    allpos = [p.arg for p in a.posonlyargs + a.args]
    for p, d in zip(allpos[len(allpos) - len(dfl):], dfl):
        if p not in vals:
            vals[p] = I.ev(d, Frame(owner_module, owner_cls))
    for k, d in zip(a.kwonlyargs, a.kw_defaults):
        if k.arg not in vals and d is not None:
            vals[k.arg] = I.ev(d, Frame(owner_module, owner_cls))
    if a.kwarg is not None:
        vals[a.kwarg.arg] = PKwargs(kw)
        kw = {}
    if kw:
        raise Refuse(f"unexpected keyword arguments {list(kw)}")
    for p in allpos[1 if is_method else 0:] + [k.arg for k in a.kwonlyargs]:
        if p not in vals:
            raise Refuse(f"missing argument {p} for {getattr(fnode, 'name', '<lambda>')}")
    if refine:
        for p, v in vals.items():
            ann = anns.get(p)
            if ann is not None and isinstance(v, SV) and v.ty.k == "any":
                ty = T.parse_ann(ann, owner_module, owner_cls)
                if ty.k != "any":
                    v2 = SV(v.t, ty, v.c)
                    I.st.assume_wt(v2)
                    vals[p] = v2
    nf.locals.update(vals)


def call_closure(I: Interp, pf: PFunc, args, kwargs, fr, node):
    if fr.depth > 12:
        raise Refuse("inline depth exceeded")
    pfr = pf.frame
    nf = Frame(pfr.module, pfr.cls, pfr.selfv, pfr.finfo, pfr, pfr.contract, fr.depth + 1)
    bind_params(I, pf.node, nf, None, args, kwargs, False, pfr.module, pfr.cls)
    if isinstance(pf.node, ast.Lambda):
        return I.ev(pf.node.body, nf)
    try:
        I.exec_block(pf.node.body, nf)
    except ReturnEx as r:
        return r.v
    return const(None)


# --------------------------------------------------------------------------------------------- repo functions
def find_contract(finfo: FuncInfo, selfv) -> Optional[Contract]:
    c = REG.contracts.get(finfo.key)
    if c is not None:
        return c
    # a whole-function view stated for one receiver class (key "...#view", self_class=C) serves calls whose receiver is statically a C
    if isinstance(selfv, SV) and T.strip_opt(selfv.ty).k == "obj":
        rc = T.strip_opt(selfv.ty).a[0]
        for k2, c2 in REG.contracts.items():
            if k2.startswith(finfo.key + "#") and c2.self_class and c2.region is None and any(b.name == c2.self_class for b in rc.mro()):
                return c2
    return None


def overriders(finfo: FuncInfo):
    if finfo.cls is None:
        return []
    return [c.name for c in finfo.cls.subclasses() if c is not finfo.cls and finfo.name in c.methods]


def call_function(I: Interp, finfo: FuncInfo, selfv, args, kwargs, fr: Frame, node=None, exact=False):
    st = I.st
    if finfo.cls is not None and finfo.cls.name in LOG_CLASSES:
        return const(None)
    top: Contract = st.cfg.get("contract")
    key = finfo.key
    if top is not None and top.abstract_callees and key != top.key.split("#")[0] and not finfo.is_property and not st.spec_depth:
        if st.guards or st.binder_asms:
            raise Refuse("abstracted callee inside a merged expression")
        st.log.append(f"callee {finfo.qualname} abstracted (any effect, any result) in the abstracted view of {top.key.split('::')[1]}")
        havoc(I, ["heap"], fr)
        a2 = st.fresh("alloc", smt.I)
        st.assume(a2 >= st.alloc)
        st.alloc = a2
        return fresh_of_type(I, f"abs_{finfo.name}", return_type(finfo))
    if top is not None and finfo.name in top.use_dispatch and finfo.cls is not None and not st.spec_depth:
        for base in finfo.cls.mro():
            bm = base.methods.get(finfo.name)
            if bm is not None and bm.key in REG.dispatch:
                st.log.append(f"call of {finfo.qualname}: dispatch contract of {bm.qualname} used (requested by the contract of {top.key.split('::')[1]})")
                return apply_contract(I, REG.dispatch[bm.key], bm, selfv, args, kwargs, fr, node)
    con = find_contract(finfo, selfv)
    is_self_call = selfv is not None and fr.selfv is not None and isinstance(selfv, SV) and isinstance(fr.selfv, SV) and z3.eq(selfv.t, fr.selfv.t)
    if not exact and not is_self_call and finfo.cls is not None and isinstance(selfv, SV):
        ov = overriders(finfo)
        dcon = REG.dispatch.get(key)
        if dcon is not None and not ov:
            st.log.append(f"call of {finfo.qualname} from outside its class: the (assumed) call-site contract is used")
            return apply_contract(I, dcon, finfo, selfv, args, kwargs, fr, node)
        if ov:
            if dcon is not None:
                st.log.append(f"dynamic dispatch on {finfo.qualname}: dispatch contract used (covers overrides in {ov[:6]}{'...' if len(ov) > 6 else ''})")
                return apply_contract(I, dcon, finfo, selfv, args, kwargs, fr, node)
            st.log.append(f"dynamic dispatch on {finfo.qualname}: resolved by {finfo.cls.name}'s own contract/body; overriding subclasses {ov[:6]}{'...' if len(ov) > 6 else ''} are assumed to refine it")
    force_inline = (top is not None and key in top.inline) or (fr.contract is not None and key in fr.contract.inline)
    if con is None and not exact and not force_inline and finfo.cls is not None and not is_self_call and key not in REG.inline:
        # an override reached through a receiver of the overriding class: the base method's dispatch contract covers it
        for base in finfo.cls.mro()[1:]:
            bm = base.methods.get(finfo.name)
            if bm is not None and bm.key in REG.dispatch:
                st.log.append(f"call of {finfo.qualname}: dispatch contract of {bm.qualname} used")
                return apply_contract(I, REG.dispatch[bm.key], bm, selfv, args, kwargs, fr, node)
    if con is not None and not force_inline:
        return apply_contract(I, con, finfo, selfv, args, kwargs, fr, node)
    allowed = force_inline or key in REG.inline or finfo.is_property or single_return_expr(finfo.node) is not None \
        or trivially_inlinable(finfo)
    if "abstractmethod" in finfo.decorators and not force_inline and key not in REG.inline and not exact:
        raise Refuse(f"call of abstract {key} without contract")
    if exact:
        allowed = True  # super().m(): exactly this body
    if not allowed:
        raise Refuse(f"call of {key} (line {getattr(node, 'lineno', '?')}): no contract and not on the inline list")
    return inline_call(I, finfo, selfv, args, kwargs, fr, node)


def trivially_inlinable(finfo: FuncInfo) -> bool:
    body = [s for s in finfo.node.body if not (isinstance(s, ast.Expr) and isinstance(s.value, ast.Constant))]
    if len(body) > 3:
        return False
    for s in body:
        for n in ast.walk(s):
            if isinstance(n, (ast.For, ast.While, ast.Try, ast.With, ast.Call)):
                return False
    return True


def inline_call(I: Interp, finfo: FuncInfo, selfv, args, kwargs, fr: Frame, node=None):
    st = I.st
    if fr.depth > 12:
        raise Refuse(f"inline depth exceeded at {finfo.key}")
    for d in finfo.decorators:
        if d not in ("property", "classmethod", "staticmethod", "validate_call", "abstractmethod", "computed_field",
                     "cached_property", "functools.cached_property", "override") and not d.endswith(".setter"):
            raise Refuse(f"decorator {d} on {finfo.key}")
    owner = finfo.cls
    nf = Frame(finfo.module, owner, selfv, finfo, None, REG.contracts.get(finfo.key), fr.depth + 1)
    is_method = owner is not None and not finfo.is_staticmethod
    bind_params(I, finfo.node, nf, selfv, args, kwargs, is_method, finfo.module, owner)
    st.log.append(f"inline {finfo.key}")
    try:
        I.exec_block(finfo.node.body, nf)
    except ReturnEx as r:
        v2 = refine_by_annotation(finfo, r.v)
        if v2 is not r.v and isinstance(v2, SV) and not st.binder_asms:
            st.assume_wt(v2)  # A7: the object really is of the declared (sub)class
        return v2
    return const(None)


def refine_by_annotation(finfo: FuncInfo, v):
    """An inlined callee's declared return class sharpens the static hint of its result (a cast, assumption A7)."""
    if not isinstance(v, SV) or finfo.node.returns is None:
        return v
    rty = T.strip_opt(return_type(finfo))
    cur = T.strip_opt(v.ty)
    if rty.k != "obj":
        return v
    if cur.k == "any" or (cur.k == "obj" and rty.a[0].is_subclass_of(cur.a[0]) and rty.a[0] is not cur.a[0]):
        new = T.OPT(rty) if v.ty.k in ("opt", "any") else rty
        return SV(v.t, new, v.c)
    return v


def return_type(finfo: FuncInfo) -> T.Ty:
    # a contract may re-type the result where the annotation says less than the code does (types={"return": "Optional[X]"} on a
    # function annotated `-> X` that returns None when X is missing)
    con = REG.contracts.get(finfo.key)
    if con is not None and "return" in con.types:
        return T.parse_ann(ast.parse(con.types["return"], mode="eval").body, finfo.module, finfo.cls)
    if finfo.node.returns is None:
        return T.ANY
    return T.parse_ann(finfo.node.returns, finfo.module, finfo.cls)


def fresh_of_type(I: Interp, prefix, ty: T.Ty):
    st = I.st
    if ty.k == "tuple" and ty.a:
        return PTuple([fresh_of_type(I, prefix, t) for t in ty.a])
    return st.fresh_val(prefix, ty)


def apply_contract(I: Interp, con: Contract, finfo: FuncInfo, selfv, args, kwargs, fr: Frame, node=None):
    st = I.st
    owner = finfo.cls
    sf = Frame(finfo.module, owner, selfv, finfo, None, con, fr.depth + 1)
    is_method = owner is not None and not finfo.is_staticmethod
    bind_params(I, finfo.node, sf, selfv, args, kwargs, is_method, finfo.module, owner)
    line = getattr(node, "lineno", 0)
    if st.binder_asms:
        # under a quantifier binder (comprehension / any / all body) a fresh result would not depend on the bound
        # variable: only pure contracts whose first clause *defines* the result (`result == E`) can be used, as E
        first = parse_expr(con.ensures[0][1]) if con.ensures else None
        if con.modifies == [] and isinstance(first, ast.Compare) and len(first.ops) == 1 and isinstance(first.ops[0], ast.Eq) \
                and isinstance(first.left, ast.Name) and first.left.id == "result":
            st.spec_depth += 1
            try:
                return I.ev(first.comparators[0], sf)
            finally:
                st.spec_depth -= 1
        if con.modifies == [] and not con.raises and not con.emits and not con.emits_after:
            # a heap-pure callee whose contract does not define the result: under the binder the result is an
            # uninterpreted function of the arguments (the heap is fixed inside a pure binder body), and the callee's
            # postconditions are assumed for it -- they are closed over the bound variable with the typing assumptions.
            # Its preconditions are NOT established here: they are made assumptions too and reported as such.
            argt = [selfv.t] if (is_method and isinstance(selfv, SV)) else []
            a_ = finfo.node.args
            for p_ in [x.arg for x in (a_.posonlyargs + a_.args)[1 if is_method else 0:]] + [x.arg for x in a_.kwonlyargs]:
                v_ = sf.locals.get(p_)
                if isinstance(v_, SV):
                    argt.append(v_.t)
            F = z3.Function(f"pure!{finfo.qualname}", *([smt.Val] * len(argt) + [smt.Val]))
            rty = return_type(finfo)
            result = SV(F(*argt), rty if rty.k != "tuple" else T.ANY)
            st.assume_wt(result)
            st.log.append(f"contract {finfo.key} (pure callee under a comprehension/quantifier: result uninterpreted in its arguments; "
                          f"its preconditions are ASSUMED there, its postconditions used)")
            sf.locals["result"] = result
            st.spec_depth += 1
            try:
                pre = [spec_bool(I, e, sf) for _l, e in con.requires]
                posts = []
                for _l, e in con.ensures:
                    if "fresh(" in e or "old(" in e:
                        continue
                    try:
                        posts.append(spec_bool(I, e, sf))
                    except Refuse:
                        st.log.append(f"postcondition `{_l}` of {finfo.qualname} not usable under a binder (ignored there)")
            finally:
                st.spec_depth -= 1
            for q in posts:
                st.assume(z3.Implies(z3.And(*pre), q) if pre else q)
            return result
        raise Refuse(f"call of {finfo.key} under a quantifier binder needs a heap-pure contract")
    for label, e in con.requires:
        st.oblige("callpre", f"{finfo.qualname}.{label}@L{line}", spec_bool(I, e, sf), line)
    top_ = st.cfg.get("contract")
    if con.decreases and top_ is not None and top_.key.split("#")[0] == con.key.split("#")[0] and st.cfg.get("spec_frame") is not None:
        # a recursive call of the function under verification: the measure of the callee's arguments is below the measure at entry
        callee_m, _ = I.num(ev_spec(I, con.decreases, sf))
        st.old_stack.append(st.entry_heap)
        try:
            entry_m, _ = I.num(ev_spec(I, con.decreases, st.cfg["spec_frame_entry"]))
        finally:
            st.old_stack.pop()
        st.oblige("termination", f"decreases@L{line}", z3.And(callee_m >= 0, callee_m < entry_m), line)
    for label, e in con.axioms:
        st.assume(spec_bool(I, e, sf))
    if not con.verify and REG.ufuns:
        import re as _re
        used = sorted({u for u in REG.ufuns for _l, e in con.ensures if _re.search(r"\b%s\(" % _re.escape(u), e)})
        if used:
            m = f"UFUN-ASSUMED {finfo.qualname}: result given by uninterpreted {', '.join(used)} (a native replay cannot realise a model's choice of it)"
            if m not in st.log:
                st.log.append(m)
    old = dict(st.heap)
    old["__epoch__"] = st.epoch
    old["__evlen__"] = st.events_len
    old_alloc = st.alloc
    pending_events = []
    for ev in con.emits:  # event arguments are values at the moment of the call
        cond = spec_bool(I, ev[2], sf) if len(ev) > 2 and ev[2] else z3.BoolVal(True)
        pending_events.append((ev[0], [I.to_sv(ev_spec(I, a, sf)).t for a in ev[1]], cond))
    if con.raises and not st.guards and not st.spec_depth:
        # the callee may raise (only) under the conditions its contract lists
        names = list(con.raises)
        conds = [z3.BoolVal(True)] + [spec_bool(I, con.raises[n], sf) for n in names]
        k = st.choose(len(conds), conds)
        if k > 0:
            st.assume(conds[k])
            havoc(I, con.modifies, sf)
            st.fresh_base.append(old_alloc)
            st.old_stack.append(old)
            try:
                for label, e in con.raises_ensures:
                    st.assume(spec_bool(I, e, sf))
            finally:
                st.old_stack.pop()
                st.fresh_base.pop()
            st.log.append(f"contract {finfo.key} (raising {names[k - 1]})")
            raise RaiseEx(names[k - 1], node)
    ev_before = st.events_len
    ep_before = st.epoch
    havoc(I, con.modifies, sf)
    if any("unchanged()" in e for _l, e in con.ensures):
        # the callee's `unchanged()` (no object existing at its entry written) means more here than the ghost epoch can say: every heap
        # array is what it was before the call.  A fresh flag u stands for it: the arrays after the call are ite(u, before, havoced).
        u = st.fresh("callee_unchanged", z3.BoolSort())
        for k_ in list(st.heap.keys()):
            if k_ in old and not k_.startswith("__") and not k_.startswith("g:") and st.heap[k_] is not old[k_] and st.heap[k_].sort() == old[k_].sort():
                st.heap[k_] = z3.If(u, old[k_], st.heap[k_])
        st.assume(z3.Implies(u, st.epoch == ep_before))
        old["__unchanged__"] = u
    if con.exact_events:
        st.events_len = ev_before
    if con.allocates:
        a2 = st.fresh("alloc", smt.I)  # the callee may allocate
        st.assume(a2 >= st.alloc)
        st.alloc = a2
    for a_, k_ in st.pending_live:
        st.assume_array_live(a_, k_, st.alloc)
    st.pending_live = []
    rty = return_type(finfo)
    result = fresh_of_type(I, f"ret_{finfo.name}", rty)
    sf.locals["result"] = result
    for f in preserve_formulas(I, con.preserves, sf, old, rewrite=True):
        st.assume(f)
    # the events the call logs are part of the post-state the ensures clauses describe
    for kind, evargs, cond in pending_events:
        append_event(st, kind, evargs, cond)
    for ev in con.emits_after:
        cond = spec_bool(I, ev[2], sf) if len(ev) > 2 and ev[2] else None
        append_event(st, ev[0], [I.to_sv(ev_spec(I, a, sf)).t for a in ev[1]], cond)
    st.old_stack.append(old)
    st.fresh_base.append(old_alloc)
    try:
        for label, e in con.ensures:
            st.assume(spec_bool(I, e, sf))
    finally:
        st.old_stack.pop()
        st.fresh_base.pop()
    top = st.cfg.get("contract")
    if top is not None and finfo.qualname in getattr(top, "assume_after_call", {}):
        st.old_stack.append(old)
        try:
            for e in top.assume_after_call[finfo.qualname]:
                st.assume(spec_bool(I, e, sf))
                m = f"ASSUMED at calls of {finfo.qualname} inside {top.key.split('::')[1]}: {e}"
                if m not in st.log:
                    st.log.append(m)
        finally:
            st.old_stack.pop()
    if not st.guards and not st.consistent():
        if con.raises:
            # the callee cannot return normally from this state (its postconditions exclude it): only its raising
            # branches, explored separately, continue from here
            raise PathEnd()
        raise Refuse(f"contract of {finfo.key} is inconsistent with the state at its call site (line {line}): vacuous proof refused")
    st.log.append(f"contract {finfo.key}")
    st.call_records.append({"callee": finfo.key, "line": line, "result": result, "heap_after": dict(st.heap)})
    return result


def space_member(I: Interp, sp, x: SV):
    st = I.st
    if sp.kind == "discrete":
        v = z3.If(smt.is_bool(x.t), z3.If(smt.bval(x.t), 1, 0), smt.ival(x.t))
        return z3.And(z3.Or(smt.is_int(x.t), smt.is_bool(x.t)), v >= 0, v < smt.ival(sp.n.t))
    if sp.kind == "dict":
        r = smt.rid(x.t)
        d = SV(x.t, T.DICT())
        I.assume_dict_wf(d)
        parts = [smt.is_ref(x.t), z3.Select(st.arr("cls"), r) == DICT_CID, z3.Select(st.arr("dsz"), r) == len(sp.items)]
        for k, sub in sp.items.items():
            kv = const(k)
            parts.append(I.dict_has(d, kv))
            parts.append(space_member(I, sub, I.dict_get(d, kv)))
        return z3.And(*parts)
    if sp.kind == "family":
        r = smt.rid(x.t)
        d = SV(x.t, T.DICT())
        I.assume_dict_wf(d)
        iv, key, sub = sp.items["iv"], sp.items["key"], sp.items["sub"]
        body = z3.And(I.dict_has(d, SV(key, T.ANY)), space_member(I, sub, I.dict_get(d, SV(key, T.ANY))))
        K = st.cfg.get("ground")
        if K:
            st.assume(sp.n <= K)
            allq = z3.And(*[z3.Implies(j < sp.n, z3.substitute(body, (iv, z3.IntVal(j)))) for j in range(K)])
        else:
            allq = z3.ForAll([iv], z3.Implies(z3.And(iv >= 0, iv < sp.n), body))
        return z3.And(smt.is_ref(x.t), z3.Select(st.arr("cls"), r) == DICT_CID, z3.Select(st.arr("dsz"), r) == sp.n, allq)
    raise Refuse(f"member() of a {sp.kind} space")


def emit_event(I: Interp, ev, sf: Frame):
    st = I.st
    kind, argexprs = ev[0], ev[1]
    cond = z3.BoolVal(True)
    if len(ev) > 2 and ev[2]:
        cond = spec_bool(I, ev[2], sf)
    args = [I.to_sv(ev_spec(I, a, sf)).t for a in argexprs]
    append_event(st, kind, args, cond)


def _evarr(st, nm):
    key = "g:" + nm
    if key not in st.heap:
        st.heap[key] = z3.Const("H0_" + key, smt.ArrIV)
        st.entry_heap.setdefault(key, st.heap[key])
    return st.heap[key]


def append_event(st, kind, args, cond=None):
    """Ghost event log: ev_kind[i], ev_a0[i], ev_a1[i]; length st.events_len."""
    cond = z3.BoolVal(True) if cond is None else cond
    kid = smt.STR.id("ev:" + kind)
    n = st.events_len
    for j, nm in enumerate(["evk", "eva0", "eva1", "eva2"]):
        key = "g:" + nm
        if key not in st.heap:
            st.heap[key] = z3.Const("H0_" + key, smt.ArrIV)
            st.entry_heap.setdefault(key, st.heap[key])
        val = smt.mk_int(kid) if j == 0 else (args[j - 1] if j - 1 < len(args) else smt.NONE)
        st.heap[key] = z3.If(cond, z3.Store(st.heap[key], n, val), st.heap[key])
    st.events_len = smt.simp(z3.If(cond, n + 1, n))
    st.events.append((cond, kind, args))


def havoc(I: Interp, modifies: Optional[List[str]], sf: Frame):
    st = I.st
    if modifies is None:
        modifies = ["heap"]
    before = dict(st.heap)
    if [m for m in modifies if m.strip() != "alloc"]:
        e2 = st.fresh("epoch", smt.I)
        st.assume(e2 >= st.epoch)
        saved_epoch = e2
    else:
        saved_epoch = st.epoch
    try:
        _havoc(I, modifies, sf)
    finally:
        st.epoch = saved_epoch
    # whole arrays replaced by the havoc hold live references only (the bound is generous: the allocation watermark
    # one step ahead, since a callee that allocates bumps it right after)
    for k, a in st.heap.items():
        if k in before and a is not before[k] and z3.is_const(a) and a.decl().kind() == z3.Z3_OP_UNINTERPRETED:
            st.pending_live.append((a, k))


def _havoc(I: Interp, modifies, sf: Frame):
    st = I.st
    for m in modifies:
        m = m.strip()
        if m == "heap":
            ev2 = st.fresh("evlen", smt.I)
            st.assume(ev2 >= st.events_len)
            st.events_len = ev2
            for k in list(st.heap.keys()):
                if k in ("cls", "ctag") or k.startswith("__") or k.startswith("g:"):
                    continue
                st.setarr(k, z3.Const(f"Hv{st.n_fresh}_{k}", st.heap[k].sort()))
                st.n_fresh += 1
            st.cfg["havoc_all"] = True
            a2 = st.fresh("alloc", smt.I)
            st.assume(a2 >= st.alloc)
            st.alloc = a2
            continue
        if m == "alloc":
            a2 = st.fresh("alloc", smt.I)
            st.assume(a2 >= st.alloc)
            st.alloc = a2
            continue
        if m.endswith("[*]") or m.endswith("{*}"):
            base = ev_spec(I, m[:-3], sf)
            if not isinstance(base, SV):
                raise Refuse(f"modifies {m}")
            r = smt.rid(base.t)
            k = T.strip_opt(base.ty).k
            if k in ("list", "tuple", "any") and m.endswith("[*]"):
                st.setarr("lel", z3.Store(st.arr("lel"), r, st.fresh("hv_lel", smt.ArrIV)))
                n = st.fresh("hv_llen", smt.I)
                st.assume(n >= 0)
                st.setarr("llen", z3.Store(st.arr("llen"), r, n))
            else:
                st.setarr("dhas", z3.Store(st.arr("dhas"), r, st.fresh("hv_dhas", smt.ArrVB)))
                st.setarr("dget", z3.Store(st.arr("dget"), r, st.fresh("hv_dget", smt.ArrVV)))
                st.setarr("dkeys", z3.Store(st.arr("dkeys"), r, st.fresh("hv_dkeys", smt.ArrIV)))
                n = st.fresh("hv_dsz", smt.I)
                st.assume(n >= 0)
                st.setarr("dsz", z3.Store(st.arr("dsz"), r, n))
            continue
        tree = parse_expr(m)
        if isinstance(tree, ast.Attribute):
            head = tree.value
            if isinstance(head, ast.Name) and head.id in ("_", "ANY"):
                st.setarr("f:" + tree.attr, st.fresh("hv_" + tree.attr, smt.ArrIV))
                continue
            ci = class_named(head, sf)
            if ci is not None:
                # class-restricted havoc: only objects of (subclasses of) the class may differ
                key = "f:" + tree.attr
                cur = st.arr(key)
                fresh_arr = st.fresh("hv_" + tree.attr, smt.ArrIV)
                rr = z3.Int("r!hv")
                # pointwise: objects of the class get the fresh value, all others keep theirs (no quantifier needed)
                new = z3.Lambda([rr], z3.If(st.subclass_pred(z3.Select(st.arr("cls"), rr), ci), z3.Select(fresh_arr, rr), z3.Select(cur, rr)))
                st.setarr(key, new)
                st.pending_live.append((fresh_arr, key))
                continue
            base = ev_spec(I, ast.unparse(head), sf)
            if not isinstance(base, SV):
                raise Refuse(f"modifies {m}")
            st.setf(smt.rid(base.t), tree.attr, st.fresh("hv_" + tree.attr, Val))
            continue
        raise Refuse(f"modifies clause {m}")


def preserve_formulas(I: Interp, entries, sf: Frame, old: dict, rewrite=False):
    """Formulas stating that the listed locations have in the current heap the value they had in `old`.
    Entry syntax as in modifies: `x.attr` (one location), `Class.attr` (all objects of the class), `x[*]` / `x{*}`
    (contents of one list / dict, the reference being evaluated in the old state)."""
    st = I.st
    out = []
    import re as _re
    for m in entries:
        m = m.strip()
        tm = _re.match(r"^((?:List|Dict|Set)\[.*\])(\[\*\]|\{\*\})$", m)
        if tm:
            # every container of that declared element type keeps its contents (type-based: uses the ghost container tag)
            ty = T.parse_ann(parse_expr(tm.group(1)), sf.module, sf.cls)
            from .interp import State as _State
            tid = _State._tags.setdefault(repr(ty), len(_State._tags) + 1)
            if "ctag" not in st.heap:
                st.heap["ctag"] = z3.Const("H0_ctag", smt.ArrII)
                st.entry_heap.setdefault("ctag", st.heap["ctag"])
            rr = z3.Int("r!ptag")
            keys = ("lel", "llen") if ty.k == "list" else ("dhas", "dget", "dsz", "dkeys")
            for k in keys:
                cur, was = st.arr(k), old.get(k, st.entry_heap.get(k))
                if was is None or z3.eq(cur, was):
                    continue
                if rewrite:
                    st.heap[k] = z3.Lambda([rr], z3.If(z3.Select(st.heap["ctag"], rr) == tid, z3.Select(was, rr), z3.Select(cur, rr)))
                else:
                    out.append(z3.ForAll([rr], z3.Implies(z3.Select(st.heap["ctag"], rr) == tid, z3.Select(cur, rr) == z3.Select(was, rr))))
            continue
        if m.endswith("[*]") or m.endswith("{*}"):
            saved = st.heap
            st.heap = dict(old)
            try:
                base = ev_spec(I, m[:-3], sf)
            finally:
                for k2, v2 in st.heap.items():
                    if not k2.startswith("__"):
                        saved.setdefault(k2, v2)
                st.heap = saved
            r = smt.rid(base.t)
            keys = ("lel", "llen") if m.endswith("[*]") else ("dhas", "dget", "dsz", "dkeys")
            for k in keys:
                cur, was = st.arr(k), old.get(k, st.entry_heap.get(k))
                if was is not None and not z3.eq(cur, was):
                    out.append(z3.Select(cur, r) == z3.Select(was, r))
            continue
        tree = parse_expr(m)
        if not isinstance(tree, ast.Attribute):
            raise Refuse(f"preserves clause {m}")
        key = "f:" + tree.attr
        cur, was = st.arr(key), old.get(key, st.entry_heap.get(key))
        if was is None or z3.eq(cur, was):
            continue
        ci = class_named(tree.value, sf)
        if ci is not None:
            rr = z3.Int("r!pres")
            if rewrite:
                # exact and quantifier-free: objects of the class keep their old value, everything else stays havocked
                st.heap[key] = z3.Lambda([rr], z3.If(st.subclass_pred(z3.Select(st.arr("cls"), rr), ci), z3.Select(was, rr), z3.Select(cur, rr)))
            else:
                out.append(z3.ForAll([rr], z3.Implies(st.subclass_pred(z3.Select(st.arr("cls"), rr), ci), z3.Select(cur, rr) == z3.Select(was, rr))))
        else:
            saved = st.heap
            st.heap = dict(old)
            try:
                base = ev_spec(I, ast.unparse(tree.value), sf)
            finally:
                for k2, v2 in st.heap.items():
                    if not k2.startswith("__"):
                        saved.setdefault(k2, v2)
                st.heap = saved
            out.append(z3.Select(cur, smt.rid(base.t)) == z3.Select(was, smt.rid(base.t)))
    return out


def class_named(head, sf: Frame):
    """`Class.attr` in a modifies clause: the Name (or dotted name) resolves to a repo class and is not a local."""
    if isinstance(head, ast.Attribute):  # Outer.Inner (nested class)
        base = head
        while isinstance(base, ast.Attribute):
            base = base.value
        if isinstance(base, ast.Name) and not sf.has(base.id):
            try:
                return Repo_get().class_by_name(ast.unparse(head))
            except KeyError:
                return None
        return None
    if isinstance(head, ast.Name) and not sf.has(head.id):
        r = sf.module.resolve_name(head.id)
        if isinstance(r, ClassInfo):
            return r
        try:
            return Repo_get().class_by_name(head.id)
        except KeyError:
            return None
    return None


def Repo_get():
    from .repo import Repo
    return Repo.get()


# --------------------------------------------------------------------------------------------- constructors
EXC_BASES = {"Exception", "ValueError", "RuntimeError", "KeyError"}


def construct(I: Interp, ci: ClassInfo, args, kwargs, fr: Frame, node=None):
    st = I.st
    if ci.is_enum:
        # Enum(value)
        if len(args) != 1:
            raise Refuse("Enum() arity")
        v = I.to_sv(args[0])
        ms = ci.enum_members()
        terms = enum_member_terms(ci)
        names = list(ms)
        st.oblige("safety", f"enum_value.{ci.name}", z3.Or(*[I.eq(v, const(ms[n])) for n in names]), getattr(node, "lineno", 0))
        res = terms[names[-1]]
        for n in reversed(names[:-1]):
            res = z3.If(I.eq(v, const(ms[n])), terms[n], res)
        return SV(smt.simp(res), T.ENUM(ci))
    if any(b.split(".")[-1] in EXC_BASES or b.endswith("Error") or b.endswith("Warning") for b in ci.all_ext_bases()):
        return PExt("exc." + ci.name)
    if ci.name in LOG_CLASSES:
        return PLog()
    init = ci.find_method("__init__")
    con = REG.contracts.get(init.key) if init is not None else None
    if not ci.is_pydantic and init is not None and con is None and init.key not in REG.inline:
        raise Refuse(f"constructor of non-pydantic class {ci.name} without contract")
    r = st.new_ref(ci.cid)
    obj = SV(smt.mk_ref(r), T.OBJ(ci))
    if args:
        if ci.is_pydantic:
            raise Refuse(f"positional arguments to pydantic constructor {ci.name}")
    kw = dict(kwargs)
    top: Contract = st.cfg.get("contract")
    run_init = init is not None and (init.key in REG.inline or (top is not None and init.key in top.inline))
    if run_init:
        nf = Frame(init.module, init.cls, obj, init, None, REG.contracts.get(init.key), fr.depth + 1)
        bind_params(I, init.node, nf, obj, args, kw, True, init.module, init.cls)
        try:
            I.exec_block(init.node.body, nf)
        except ReturnEx:
            pass
        return obj
    set_fields(I, ci, obj, kw, fr)
    if init is not None or ci.find_method("model_post_init") is not None:
        st.log.append(f"ctor-assumed {ci.name}: fields=args/defaults, __init__/model_post_init body not executed")
    return obj


def set_fields(I: Interp, ci: ClassInfo, obj: SV, kw: Dict[str, Any], fr: Frame):
    """pydantic BaseModel.__init__: every annotated field gets the keyword argument or its declared default."""
    st = I.st
    r = smt.rid(obj.t)
    seen = set()
    for c in ci.mro():
        for name, (ann, dflt) in c.fields.items():
            if name in seen or ann is None:
                continue
            if name == "model_config":
                continue
            seen.add(name)
            ann_s = ast.unparse(ann)
            if ann_s.startswith("ClassVar"):
                continue
            if name in kw:
                v = kw.pop(name)
            elif dflt is not None:
                v = eval_default(I, dflt, c)
            else:
                continue  # required field not supplied: pydantic would raise; leave unconstrained
            st.setf(r, name, I.to_sv(v).t)
    for name, v in kw.items():  # extra="allow"
        st.setf(r, name, I.to_sv(v).t)


def eval_default(I: Interp, dflt, c: ClassInfo):
    mfr = Frame(c.module, c)
    if isinstance(dflt, ast.Call) and isinstance(dflt.func, ast.Name) and dflt.func.id in ("Field", "PrivateAttr"):
        for k in dflt.keywords:
            if k.arg == "default_factory":
                f = I.ev(k.value, mfr)
                return apply_callable(I, f, [], {}, mfr, dflt)
            if k.arg == "default":
                return I.ev(k.value, mfr)
        if dflt.args:
            return I.ev(dflt.args[0], mfr)
        return I.st.fresh_val("field_default")
    return I.ev(dflt, mfr)


def list_extend(I: Interp, l: SV, other):
    if isinstance(other, PTuple):
        for it in other.items:
            I.list_append(l, I.to_sv(it))
        return
    if isinstance(other, SV) and T.strip_opt(other.ty).k == "list":
        n = I.list_len(other)
        if z3.is_int_value(n):
            for j in range(n.as_long()):
                I.list_append(l, I.list_get(other, z3.IntVal(j)))
            return
        cat = I.list_concat(l, other)
        st = I.st
        r = smt.rid(l.t)
        st.setarr("lel", z3.Store(st.arr("lel"), r, z3.Select(st.arr("lel"), smt.rid(cat.t))))
        st.setarr("llen", z3.Store(st.arr("llen"), r, z3.Select(st.arr("llen"), smt.rid(cat.t))))
        return
    if isinstance(other, SV) and T.strip_opt(other.ty).k in ("set", "dict") or isinstance(other, PIter):
        from .comp import build_collection
        return list_extend(I, l, build_collection(I, "list", [other], {}, None))
    if isinstance(other, SV) and T.strip_opt(other.ty).k == "any":
        I.st.log.append("list.extend(value of undeclared type): taken to be a list")
        return list_extend(I, l, SV(other.t, T.LIST(T.ANY)))
    raise Refuse("list.extend with non-list")
