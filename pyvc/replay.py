"""Native replay of a verifier counter-model against the real code imported from /repo.

The decoded model (entry heap + arguments, see verify.decode_model) is turned into *real* objects
(`Class.model_construct` for pydantic models: no validation, no __init__), the unmodified real function is called,
and the violated contract clause is evaluated natively on the pre-state snapshot and the post-state.
"""
from __future__ import annotations

import ast
import copy
import importlib
import ipaddress
import sys
import traceback
from typing import Any, Dict, Optional

from . import types as T
from .contracts import REG, Contract
from .interp import LOG_CLASSES
from .repo import REPO, ClassInfo, FuncInfo, Repo


class _Quiet:
    """Stand-in for loggers (SysLog etc.): every attribute is a no-op callable."""

    def __getattr__(self, name):
        return lambda *a, **k: None

    def __deepcopy__(self, memo):
        return self

    def __bool__(self):
        return True


def _import_class(ci: ClassInfo):
    if REPO != "/repo":
        src = REPO + "/src"
        if src not in sys.path:
            sys.path.insert(0, src)
    mod = importlib.import_module(ci.module.name)
    obj = mod
    for part in ci.name.split("."):
        obj = getattr(obj, part)
    return obj


def _default_for(ty: Optional[T.Ty]):
    if ty is None:
        return None
    k = ty.k
    if k in ("opt", "none", "any"):
        return None
    if k == "int":
        return 0
    if k == "bool":
        return False
    if k == "float":
        return 0.0
    if k == "str":
        return ""
    if k == "ip":
        return ipaddress.IPv4Address(0)
    if k == "list":
        return []
    if k in ("dict",):
        return {}
    if k == "set":
        return set()
    if k == "enum":
        cls = _import_class(ty.a[0])
        return list(cls)[0]
    return None


def _fits(v, ty: Optional[T.Ty]) -> bool:
    if ty is None or ty.k == "any":
        return True
    k = ty.k
    if k == "opt":
        return v is None or _fits(v, ty.a[0])
    if k == "none":
        return v is None
    if k == "int":
        return isinstance(v, int) and not isinstance(v, bool)
    if k == "bool":
        return isinstance(v, bool)
    if k == "float":
        return isinstance(v, (int, float)) and not isinstance(v, bool)
    if k == "str":
        return isinstance(v, str)
    if k == "ip":
        return isinstance(v, dict) and "$ip" in v
    if k == "enum":
        return isinstance(v, dict) and "$enum" in v
    if k in ("obj", "list", "dict", "set", "tuple", "ext"):
        return isinstance(v, dict)
    return True


def _blank_instance(cls):
    """An instance without running __init__ / validators / model_post_init."""
    if not hasattr(cls, "model_construct"):
        return object.__new__(cls)
    try:
        return cls.model_construct()
    except Exception:
        obj = cls.__new__(cls)
        object.__setattr__(obj, "__dict__", {})
        object.__setattr__(obj, "__pydantic_fields_set__", set())
        extra = cls.model_config.get("extra") == "allow"
        object.__setattr__(obj, "__pydantic_extra__", {} if extra else None)
        priv = {}
        for name, pa in getattr(cls, "__private_attributes__", {}).items():
            try:
                d = pa.get_default()
                priv[name] = copy.deepcopy(d)
            except Exception:
                pass
        object.__setattr__(obj, "__pydantic_private__", priv)
        for name, f in cls.model_fields.items():
            try:
                if not f.is_required():
                    obj.__dict__[name] = f.get_default(call_default_factory=True)
            except Exception:
                pass
        return obj


def ast_is_classvar(ann) -> bool:
    return ast.unparse(ann).startswith("ClassVar")


class Builder:
    def __init__(self):
        self.memo: Dict[int, Any] = {}

    def build(self, v, ty: Optional[T.Ty] = None):
        if not _fits(v, ty):
            if ty is not None and ty.k == "obj" and not isinstance(v, dict):
                # the model gives a non-reference where an object is declared (an untyped corner of a candidate model): a
                # blank object of the declared class, one per distinct model value
                self._blank = getattr(self, "_blank", 0) + 1
                try:
                    return self.build({"$ref": f"blank:{ty.a[0].name}:{v!r}", "$class": ty.a[0].name}, ty)
                except Exception:
                    return None
            return _default_for(ty)
        if v is None or isinstance(v, (bool, int, float)):
            return v
        if isinstance(v, str):
            return v
        if isinstance(v, dict):
            if "$ip" in v:
                return ipaddress.IPv4Address(v["$ip"])
            if "$enum" in v:
                cname, member = v["$enum"].rsplit(".", 1)
                ci = Repo.get().class_by_name(cname)
                return getattr(_import_class(ci), member)
            r = v.get("$ref")
            if r in self.memo:
                return self.memo[r]
            if "$list" in v:
                out = []
                self.memo[r] = out
                ety = T.strip_opt(ty).a[0] if ty is not None and T.strip_opt(ty).k == "list" and T.strip_opt(ty).a else None
                for x in v["$list"]:
                    out.append(self.build(x, ety))
                n_ = v.get("$len", len(out))
                if "$tail" in v and len(out) < n_ <= 100000:
                    out.extend([out[-1] if out else None] * (n_ - len(out) - 2))
                    out.extend(self.build(x, ety) for x in v["$tail"])
                return out
            if "$dict" in v:
                out = {}
                self.memo[r] = out
                tt = T.strip_opt(ty) if ty is not None else None
                kty = tt.a[0] if tt is not None and tt.k == "dict" and tt.a else None
                vty = tt.a[1] if tt is not None and tt.k == "dict" and len(tt.a) > 1 else None
                for k2, x in v["$dict"]:
                    try:
                        out[self.build(k2, kty)] = self.build(x, vty)
                    except TypeError:
                        pass
                return out
            if "$dict_size" in v:
                out = {}
                self.memo[r] = out
                return out
            if "$class" in v:
                ci = Repo.get().class_by_name(v["$class"])
                cls = _import_class(ci)
                if ci.name in LOG_CLASSES:
                    return _Quiet()
                obj = None
                for cand_ci in [ci] + [c for c in ci.subclasses() if c is not ci]:
                    try:
                        cand = _import_class(cand_ci)
                        if getattr(cand, "__abstractmethods__", None):
                            continue
                        obj = _blank_instance(cand)
                        ci = cand_ci
                        break
                    except Exception:
                        continue
                if obj is None:
                    raise TypeError(f"no concrete class to instantiate for {v['$class']}")
                self.memo[r] = obj
                for name, val in v.items():
                    if name.startswith("$"):
                        continue
                    fty = T.field_type(ci, name)
                    if fty is None:  # attribute declared by `self.x: T = ...` in a method
                        for c_ in ci.mro():
                            if name in c_.self_annotations():
                                fty = T.parse_ann(c_.self_annotations()[name], c_.module, c_)
                                break
                    inner = T.strip_opt(fty) if fty is not None else None
                    if (inner is not None and inner.k == "obj" and inner.a[0].name in LOG_CLASSES) or name in ("sys_log", "logger"):
                        built = _Quiet()
                    else:
                        built = self.build(val, fty)
                    self.setattr(obj, name, built)
                # fields the model did not mention: loggers get a quiet stand-in, required fields a neutral value
                for c in ci.mro():
                    for fn, (ann, _d) in c.fields.items():
                        if ann is None or fn == "model_config" or ast_is_classvar(ann):
                            continue
                        fty = T.field_type(ci, fn)
                        inner = T.strip_opt(fty) if fty is not None else None
                        if inner is not None and inner.k == "obj" and inner.a[0].name in LOG_CLASSES:
                            self.setattr(obj, fn, _Quiet())
                        elif fn not in v and not self.hasattr(obj, fn):
                            self.setattr(obj, fn, _default_for(fty))
                return obj
            if ty is not None and T.strip_opt(ty).k == "obj":
                # a reference the model did not expand: construct an empty instance
                ci = T.strip_opt(ty).a[0]
                try:
                    cls = _import_class(ci)
                    obj = _blank_instance(cls)
                    self.memo[r] = obj
                    return obj
                except Exception:
                    return None
            return _default_for(ty)
        return v

    @staticmethod
    def hasattr(obj, name):
        if name in getattr(obj, "__dict__", {}):
            return True
        p = getattr(obj, "__pydantic_private__", None)
        return bool(p) and name in p

    @staticmethod
    def setattr(obj, name, value):
        priv = getattr(obj, "__pydantic_private__", None)
        if name.startswith("_") and hasattr(type(obj), "__private_attributes__") and name in type(obj).__private_attributes__:
            if priv is None:
                object.__setattr__(obj, "__pydantic_private__", {})
                priv = obj.__pydantic_private__
            priv[name] = value
            return
        try:
            obj.__dict__[name] = value
        except Exception:
            object.__setattr__(obj, name, value)


# ------------------------------------------------------------------------------------------------- native spec evaluation
class NativeSpec:
    def __init__(self, module_globals: dict, memo: dict, roots: list):
        self.g = module_globals
        self.memo = memo  # id(original) -> deep-copied twin (pre-state)
        self.roots = roots
        self.old_mode = 0
        self.reachable_all_pre = []

    def _origin(self, v):
        """The entry-state object a pre-state twin was copied from (v itself when it is not a twin)."""
        if isinstance(v, (str, int, float, bool, type(None))):
            return v
        if not hasattr(self, "_twin2orig"):
            self._twin2orig = {}
            # memo: id(original) -> twin (deepcopy's memo also keeps the originals alive in memo[id(memo)])
            keep = self.memo.get(id(self.memo), [])
            for orig in keep:
                t = self.memo.get(id(orig))
                if t is not None:
                    self._twin2orig[id(t)] = orig
        return self._twin2orig.get(id(v), v)

    def _is_twin(self, now, then):
        return self.memo.get(id(now)) is then

    def memo_originals(self):
        return [o for o in self.reachable_all_pre]

    def twin(self, v):
        if self.old_mode:
            return self.memo.get(id(v), v)
        return v

    def reachable(self, cls):
        seen, out, stack = set(), [], list(self.roots)
        while stack:
            x = stack.pop()
            if id(x) in seen or isinstance(x, (str, int, float, bool, type(None), _Quiet)):
                continue
            seen.add(id(x))
            if isinstance(x, cls):
                out.append(x)
            if isinstance(x, (list, tuple, set)):
                stack.extend(x)
            elif isinstance(x, dict):
                stack.extend(x.values())
            elif hasattr(x, "__dict__"):
                stack.extend(x.__dict__.values())
                p = getattr(x, "__pydantic_private__", None)
                if p:
                    stack.extend(p.values())
        return out

    def ev(self, n, env):
        m = getattr(self, "n_" + type(n).__name__)
        return m(n, env)

    def n_Constant(self, n, env):
        return n.value

    def n_Name(self, n, env):
        if n.id in env:
            return self.twin(env[n.id])
        if n.id in self.g:
            return self.g[n.id]
        import builtins
        if hasattr(builtins, n.id):
            return getattr(builtins, n.id)
        # contracts may name any class of the repository, whether or not the function's module imports it
        try:
            return _import_class(Repo.get().class_by_name(n.id))
        except Exception:
            return getattr(builtins, n.id)

    def n_Attribute(self, n, env):
        return getattr(self.ev(n.value, env), n.attr)

    def n_Subscript(self, n, env):
        b = self.ev(n.value, env)
        if isinstance(n.slice, ast.Slice):
            lo = self.ev(n.slice.lower, env) if n.slice.lower else None
            hi = self.ev(n.slice.upper, env) if n.slice.upper else None
            return b[lo:hi]
        return b[self.ev(n.slice, env)]

    def n_Tuple(self, n, env):
        return tuple(self.ev(e, env) for e in n.elts)

    def n_List(self, n, env):
        return [self.ev(e, env) for e in n.elts]

    def n_BoolOp(self, n, env):
        if isinstance(n.op, ast.And):
            v = True
            for e in n.values:
                v = self.ev(e, env)
                if not v:
                    return v
            return v
        v = False
        for e in n.values:
            v = self.ev(e, env)
            if v:
                return v
        return v

    def n_UnaryOp(self, n, env):
        v = self.ev(n.operand, env)
        if isinstance(n.op, ast.Not):
            return not v
        if isinstance(n.op, ast.USub):
            return -v
        if isinstance(n.op, ast.Invert):
            return ~v
        return +v

    def n_BinOp(self, n, env):
        import operator as o
        f = {ast.Add: o.add, ast.Sub: o.sub, ast.Mult: o.mul, ast.Div: o.truediv, ast.FloorDiv: o.floordiv, ast.Mod: o.mod,
             ast.BitAnd: o.and_, ast.BitOr: o.or_, ast.Pow: o.pow}[type(n.op)]
        return f(self.ev(n.left, env), self.ev(n.right, env))

    def n_IfExp(self, n, env):
        return self.ev(n.body, env) if self.ev(n.test, env) else self.ev(n.orelse, env)

    def n_Compare(self, n, env):
        import operator as o
        left = self.ev(n.left, env)
        for op, rn in zip(n.ops, n.comparators):
            right = self.ev(rn, env)
            if isinstance(op, (ast.Is, ast.IsNot)):
                # identity across old() and the current state: a pre-state twin stands for the object it was copied from
                a, b = self._origin(left), self._origin(right)
                if (a is b) != isinstance(op, ast.Is):
                    return False
                left = right
                continue
            f = {ast.Eq: o.eq, ast.NotEq: o.ne, ast.Lt: o.lt, ast.LtE: o.le, ast.Gt: o.gt, ast.GtE: o.ge, ast.Is: o.is_,
                 ast.IsNot: o.is_not, ast.In: lambda a, b: a in b, ast.NotIn: lambda a, b: a not in b}[type(op)]
            if not f(left, right):
                return False
            left = right
        return True

    def n_Call(self, n, env):
        f = n.func
        if isinstance(f, ast.Name):
            nm = f.id
            if nm == "old":
                self.old_mode += 1
                try:
                    return self.ev(n.args[0], env)
                finally:
                    self.old_mode -= 1
            if nm in ("forall", "exists"):
                var = n.args[0].id
                lo, hi = self.ev(n.args[1], env), self.ev(n.args[2], env)
                gen = (self.ev(n.args[3], dict(env, **{var: i})) for i in range(lo, hi))
                return all(gen) if nm == "forall" else any(gen)
            if nm in ("forall_obj", "exists_obj"):
                var = n.args[0].id
                cls = self.ev(n.args[1], env)
                res = []
                for o_ in self.reachable(cls):
                    try:
                        res.append(bool(self.ev(n.args[2], dict(env, **{var: o_}))))
                    except (AttributeError, KeyError):
                        continue
                return all(res) if nm == "forall_obj" else any(res)
            if nm == "cast":  # a typing hint for the engine; natively the value itself
                return self.ev(n.args[0], env)
            if nm == "is_enum_value":
                x, cls = self.ev(n.args[0], env), self.ev(n.args[1], env)
                return any(x == m_.value and type(x) is type(m_.value) for m_ in cls)
            if nm == "implies":
                return (not self.ev(n.args[0], env)) or bool(self.ev(n.args[1], env))
            if nm == "iff":
                return bool(self.ev(n.args[0], env)) == bool(self.ev(n.args[1], env))
            if nm == "ite":
                return self.ev(n.args[1], env) if self.ev(n.args[0], env) else self.ev(n.args[2], env)
            if nm in ("dict_key", "dict_val"):
                d = self.ev(n.args[0], env)
                j = self.ev(n.args[1], env)
                return list(d.keys())[j] if nm == "dict_key" else list(d.values())[j]
            if nm in ("same_dict", "same_dict_except"):
                d = self.ev(n.args[0], env)
                was = self.memo.get(id(d), d)
                if nm == "same_dict":
                    return list(d.items()) == list(was.items()) and all(a is b or a == b for a, b in zip(d.values(), was.values()))
                k = self.ev(n.args[1], env)
                keys = (set(d) | set(was)) - {k}
                return all((x in d) == (x in was) and (x not in d or self.memo.get(id(was[x]), None) is d[x] or was[x] is d[x] or
                                                       self._is_twin(d[x], was[x])) for x in keys)
            if nm == "fresh":
                v = self.ev(n.args[0], env)
                # every object of the entry state was deep-copied for the pre-state snapshot: the memo knows them all
                return id(v) not in self.memo
            if nm == "bit":
                return (int(self.ev(n.args[0], env)) >> self.ev(n.args[1], env)) & 1
            if nm == "valid_mask":
                try:
                    ipaddress.IPv4Network(f"0.0.0.0/{self.ev(n.args[0], env)}")
                    return True
                except ValueError:
                    return False
            if nm == "plen":
                return ipaddress.IPv4Network(f"0.0.0.0/{self.ev(n.args[0], env)}").prefixlen
            if nm == "in_net":
                x, a_, m_ = [self.ev(q, env) for q in n.args]
                return ipaddress.IPv4Address(x) in ipaddress.IPv4Network(f"{a_}/{m_}", strict=False)
            if nm in REG.specs and nm not in env:
                sp = REG.specs[nm]
                args = [self.ev(a, env) for a in n.args]
                # arguments are already twinned where needed: evaluate the body outside old-mode bookkeeping but keep
                # old-mode for reads through them (twins are pre-state objects themselves)
                return self.ev(sp.tree, dict(zip(sp.params, args)))
        fn = self.ev(f, env)
        args = [self.ev(a, env) for a in n.args]
        kwargs = {k.arg: self.ev(k.value, env) for k in n.keywords}
        return fn(*args, **kwargs)


# ------------------------------------------------------------------------------------------------- replay driver
def _native_frame_violation(con: Contract, ns, memo: dict, built: dict, result):
    """First location of an entry-state object that changed although `modifies` does not cover it (None if none)."""
    specs = [m.strip() for m in (con.modifies if con.modifies is not None else ["heap"])]
    if "heap" in specs:
        return None
    id2orig = {}
    # memo maps id(original) -> twin; originals are reachable from the built parameters
    seen, stack = set(), list(built.values())
    while stack:
        x = stack.pop()
        if id(x) in seen or isinstance(x, (str, int, float, bool, type(None), _Quiet)):
            continue
        seen.add(id(x))
        if id(x) in memo:
            id2orig[id(x)] = x
        if isinstance(x, (list, tuple, set)):
            stack.extend(x)
        elif isinstance(x, dict):
            stack.extend(x.values())
        elif hasattr(x, "__dict__"):
            stack.extend(x.__dict__.values())
            p = getattr(x, "__pydantic_private__", None)
            if p:
                stack.extend(p.values())

    def same(now, then):
        if isinstance(now, (str, int, float, bool, type(None))) or isinstance(then, (str, int, float, bool, type(None))):
            return now == then and type(now) is type(then)
        return memo.get(id(now)) is then or now is then

    env = dict(built)
    env["result"] = result

    def target(expr):
        try:
            return ns.ev(ast.parse("(" + expr + ")", mode="eval").body, dict(env))
        except Exception:
            return _Quiet

    attr_specs, cont_specs = [], []
    for m in specs:
        if m == "alloc":
            continue
        if m.endswith("[*]") or m.endswith("{*}"):
            cont_specs.append(m[:-3])
        elif "." in m:
            base, attr = m.rsplit(".", 1)
            attr_specs.append((base, attr))
    for oid, orig in id2orig.items():
        twin = memo[oid]
        if isinstance(orig, (list, set, dict)):
            changed = (len(orig) != len(twin)) or (isinstance(orig, list) and any(not same(a, b) for a, b in zip(orig, twin))) \
                or (isinstance(orig, dict) and (list(orig.keys()) != list(twin.keys()) or any(not same(orig[k], twin[k]) for k in orig)))
            if changed:
                if not any(target(c) is orig for c in cont_specs):
                    return f"contents of a {type(orig).__name__} of the entry state ({repr(orig)[:80]}) changed; modifies = {specs}"
            continue
        if not hasattr(orig, "__dict__"):
            continue
        fields = dict(orig.__dict__)
        fields.update(getattr(orig, "__pydantic_private__", None) or {})
        tfields = dict(getattr(twin, "__dict__", {}))
        tfields.update(getattr(twin, "__pydantic_private__", None) or {})
        for a, now in fields.items():
            if a not in tfields or same(now, tfields[a]):
                continue
            ok = False
            for base, attr in attr_specs:
                if attr != a:
                    continue
                if base in ("_", "ANY"):
                    ok = True
                elif base.replace(".", "").isidentifier() and base[0].isupper():
                    ok = ok or any(c.__name__ == base.split(".")[-1] for c in type(orig).__mro__)
                else:
                    ok = ok or target(base) is orig
            if not ok:
                return f"{type(orig).__name__}.{a} changed from {tfields[a]!r:.60} to {now!r:.60}; modifies = {specs}"
    return None


def _install_callee_pre_hook(label: str, memo: dict):
    """Run-time check of a callee's contract precondition on the real code: the real callee is wrapped for the duration of the
    replay; each call evaluates the named `requires` clause natively on the actual arguments."""
    import inspect
    try:
        head = label.split("@")[0]
        qual, prelabel = head.rsplit(".", 1)
        key = next((k for k in REG.contracts if k.endswith("::" + qual)), None)
        if key is None:
            return None
        con = REG.contracts[key]
        expr = dict(con.requires).get(prelabel)
        finfo = Repo.get().find(key)
        if expr is None or finfo.cls is None:
            return None
        cls = _import_class(finfo.cls)
        orig = cls.__dict__.get(finfo.name)
        if orig is None or not callable(orig):
            return None
        mod = importlib.import_module(finfo.module.name)
        tree = ast.parse("(" + expr.strip() + ")", mode="eval").body
        sig = inspect.signature(orig)
        state = {"violations": []}

        def wrapper(*a, **kw):
            try:
                bound = sig.bind(*a, **kw)
                bound.apply_defaults()
                env = dict(bound.arguments)
                ns2 = NativeSpec(mod.__dict__, memo, list(env.values()))
                if not ns2.ev(tree, env):
                    state["violations"].append(f"{qual}: requires `{prelabel}` ({expr[:120]}) is False for the arguments of this call")
            except Exception as ex:  # the clause is not evaluable natively: says nothing
                state.setdefault("errors", []).append(f"{type(ex).__name__}: {ex}")
            return orig(*a, **kw)
        setattr(cls, finfo.name, wrapper)
        state["restore"] = lambda: setattr(cls, finfo.name, orig)
        return state
    except Exception:
        return None


def replay(key: str, model: dict, obligation: dict) -> dict:
    """Returns {'built': bool, 'reproduced': bool|None, 'detail': str, ...}.  reproduced=None: could not decide."""
    out: Dict[str, Any] = {"built": False, "reproduced": None, "detail": ""}
    try:
        con: Contract = REG.contracts[key]
        finfo = Repo.get().find(key.split("#")[0])
        if con.region is not None and con.region[0] != "request":
            out["detail"] = "replay of lambda/nested regions other than request handlers is not implemented"
            return out
        if REPO != "/repo":
            src = REPO + "/src"
            if src not in sys.path:
                sys.path.insert(0, src)
        mod = importlib.import_module(finfo.module.name)
        params = model.get("params", {})
        a = finfo.node.args
        names = [p.arg for p in a.posonlyargs + a.args + a.kwonlyargs]
        if con.region is not None:
            names = ["self", "request", "context"]
        b = Builder()
        owner = finfo.cls
        built: Dict[str, Any] = {}
        for k, nm in enumerate(names):
            if nm not in params:
                out["detail"] = f"model has no value for parameter {nm}"
                return out
            if k == 0 and owner is not None and not finfo.is_staticmethod:
                ty = T.OBJ(Repo.get().class_by_name(con.self_class) if con.self_class else owner)
            elif con.region is not None:
                ty = T.LIST(T.ANY) if nm == "request" else T.ANY
            else:
                p = (a.posonlyargs + a.args + a.kwonlyargs)[k]
                ty = T.parse_ann(p.annotation, finfo.module, owner) if p.annotation is not None else None
            built[nm] = b.build(params[nm], ty)
        out["built"] = True
        memo: dict = {}
        snapshot = copy.deepcopy(built, memo)
        ns = NativeSpec(mod.__dict__, memo, list(built.values()))
        # preconditions must hold natively, otherwise the candidate model is not a valid entry state
        env0 = dict(built)
        for label, e in con.requires:
            try:
                if not ns.ev(ast.parse("(" + e.strip() + ")", mode="eval").body, env0):
                    out["reproduced"] = None
                    out["detail"] = f"candidate state violates precondition {label} natively (model came from an incomplete instantiation)"
                    return out
            except Exception as ex:
                out["detail"] = f"precondition {label} not evaluable natively: {type(ex).__name__}: {ex}"
                return out
        # call the real function
        if con.region is not None:
            selfobj = built["self"]
            rm = getattr(type(selfobj), finfo.name)(selfobj)  # the real _init_request_manager builds the real lambdas
            handler = rm.request_types[con.region[1]].func
            call = lambda: handler(built["request"], built["context"])  # noqa: E731
        elif owner is not None and not finfo.is_staticmethod:
            selfobj = built[names[0]]
            fn = getattr(type(selfobj), finfo.name)
            if isinstance(fn, property):
                call = lambda: fn.fget(selfobj)  # noqa: E731
            else:
                call = lambda: fn(selfobj, **{n: built[n] for n in names[1:]})  # noqa: E731
        else:
            fn = getattr(mod, finfo.name)
            call = lambda: fn(**{n: built[n] for n in names})  # noqa: E731
        raised = None
        result = None
        pre_hook = None
        if obligation["kind"] == "callpre":
            pre_hook = _install_callee_pre_hook(obligation["label"], memo)
        try:
            result = call()
        except Exception as ex:  # the real code raised
            raised = ex
        finally:
            if pre_hook is not None:
                pre_hook["restore"]()
        if pre_hook is not None and pre_hook["violations"]:
            out["reproduced"] = True
            out["native_raised"] = f"{type(raised).__name__}: {raised}"[:300] if raised is not None else None
            out["detail"] = ("callee precondition evaluated natively at the moment of the call: " + pre_hook["violations"][0])[:400]
            return out
        out["native_result"] = repr(result)[:300]
        out["native_raised"] = f"{type(raised).__name__}: {raised}"[:300] if raised is not None else None
        kind, label = obligation["kind"], obligation["label"]
        if kind in ("safety", "callpre"):
            if raised is not None:
                # the exception must be the one the obligation is about; anything else (typically an AttributeError on
                # an object the model left partially described) is an artefact of the replay, not a reproduction
                msg = str(raised)
                tn = type(raised).__name__
                expect = {"key": ("KeyError",), "index": ("IndexError",), "divzero": ("ZeroDivisionError",), "pop_empty": ("IndexError", "KeyError"),
                          "remove_absent": ("ValueError",), "set_remove_absent": ("KeyError",), "index_absent": ("ValueError",),
                          "min_max_empty": ("ValueError",), "unpack_arity": ("ValueError", "TypeError"), "enum_value": ("ValueError",),
                          "randint_range": ("ValueError",), "choice_nonempty": ("IndexError", "ValueError"), "ip_range": ("AddressValueError", "ValueError"),
                          "join_of_non_strings": ("TypeError",)}
                head = label.split(".")[0].split("@")[0]
                ok = True
                if head in ("none_deref", "none_subscript", "len_of_none", "iterate_none", "call_of_none", "attr_of_nonobject", "receiver_is_",
                            "subscript_of_nonlist", "subscript_of_nondict", "arith_on_nonnumber"):
                    ok = tn in ("AttributeError", "TypeError") and ("NoneType" in msg or head not in ("none_deref", "none_subscript", "len_of_none", "iterate_none", "call_of_none"))
                elif head == "raise":
                    ok = tn == label.split(".", 1)[1].split("@")[0]
                elif head == "assert":
                    ok = tn == "AssertionError"
                elif head in expect:
                    ok = tn in expect[head] and (head != "join_of_non_strings" or "sequence item" in msg)
                if not ok:
                    out["reproduced"] = None
                    out["detail"] = (f"real code raised {tn}, not the exception obligation `{label}` is about "
                                     f"(possibly an artefact of the partially constructed state)")
                    return out
                out["reproduced"] = True
                out["detail"] = f"real code raised {type(raised).__name__} on the model's input"
            elif kind == "callpre":
                # a callee precondition is a logical condition (often over ghost state): the real callee need not raise when
                # it is violated, so a quiet native run says nothing
                out["reproduced"] = None
                out["detail"] = "callee precondition: no native counterpart to observe (the real callee did not raise)"
            else:
                out["reproduced"] = False
                out["detail"] = "real code did not raise on the model's input"
            return out
        if kind == "raises":
            out["reproduced"] = raised is not None
            out["detail"] = "exception raised outside the condition the contract allows" if raised is not None else "no exception natively"
            return out
        if kind == "post":
            if raised is not None:
                names = [c.__name__ for c in type(raised).__mro__]
                listed = next((n for n in con.raises if n in names), None)
                if listed is not None:
                    try:
                        allowed = bool(ns.ev(ast.parse("(" + con.raises[listed].strip() + ")", mode="eval").body, dict(snapshot)))
                    except Exception as ex:
                        out["detail"] = f"raises condition not evaluable natively: {ex}"
                        return out
                    out["reproduced"] = not allowed
                    out["detail"] = (f"real code raised {type(raised).__name__} " +
                                     ("within" if allowed else "OUTSIDE") + f" the condition the contract allows for {listed}")
                    return out
                if isinstance(raised, (AttributeError, TypeError, NameError)) or type(raised).__name__ == "ValidationError":
                    out["reproduced"] = None
                    out["detail"] = f"real code raised {type(raised).__name__} (possibly an artefact of the partially constructed state)"
                    return out
                out["reproduced"] = True
                out["detail"] = f"real code raised {type(raised).__name__}, which the contract does not allow, instead of returning"
                return out
            expr = dict(con.ensures).get(label)
            if expr is None:
                out["detail"] = f"no ensures clause labelled {label}"
                return out
            env = dict(built)
            env["result"] = result
            ns.roots = list(built.values()) + [result]
            try:
                holds = bool(ns.ev(ast.parse("(" + expr.strip() + ")", mode="eval").body, env))
            except Exception as ex:
                out["detail"] = f"postcondition not evaluable natively: {type(ex).__name__}: {ex}"
                return out
            out["reproduced"] = not holds
            out["detail"] = f"postcondition `{label}` evaluates to {holds} on the real post-state"
            return out
        if kind == "frame":
            # native frame check: every object of the entry state is compared with its deep-copied twin; a change at a
            # location the contract's `modifies` does not cover is a frame violation shown on the real code
            if raised is not None:
                out["detail"] = f"real code raised {type(raised).__name__}; no exit state to compare"
                return out
            try:
                bad = _native_frame_violation(con, ns, memo, built, result)
            except Exception as ex:
                out["detail"] = f"native frame comparison failed: {type(ex).__name__}: {ex}"
                return out
            if bad:
                out["reproduced"] = True
                out["detail"] = ("the real function changed a location outside its declared frame: " + bad)[:400]
            else:
                out["reproduced"] = None
                out["detail"] = "no change outside the declared frame observed natively from this entry state"
            return out
        out["detail"] = f"obligation kind {kind} has no native replay (state is not a function entry state)"
        return out
    except Exception as ex:
        out["detail"] = f"replay crashed: {type(ex).__name__}: {ex}\n{traceback.format_exc(limit=6)}"
        return out
