"""Whole-tree syntactic obligations for the two hyper-properties (C03 determinism facets, C04 isolation facets).

Each scan walks every function of src/primaite and yields *sites*; a site is an obligation that is discharged when
  - it is of a shape the scan can justify by itself (e.g. iteration over sorted(...)), or
  - it is on the committed allow-list with a written reason (contracts/determinism.py / isolation.py),
and otherwise is `failed` (decidable syntactic frame violated: VIOLATION ... no-failing-input-found) or `unknown`
(a new use of an unpredictable source whose flow has not been reviewed: UNDECIDED).
"""
from __future__ import annotations

import ast
from typing import Dict, Iterable, List

from .repo import ClassInfo, FuncInfo, ModuleInfo, Repo

MUTATORS = {"append", "extend", "insert", "pop", "remove", "clear", "add", "discard", "update", "setdefault", "popitem", "sort", "reverse"}


def _ob(kind, name, line, status, detail, head=""):
    return {"name": name, "kind": kind, "label": kind, "line": line, "path": "-", "status": status, "backend": "syntactic",
            "secs": 0.0, "detail": detail, "model": None, "smt_head": head or name}


def _functions(files: Iterable[str] = ()):
    repo = Repo.get()
    for fi in repo.all_functions():
        if files and not any(fi.module.relpath.endswith(f) or f in fi.module.relpath for f in files):
            continue
        yield fi


# ------------------------------------------------------------------------------------------ C04: class / module state
def _shared_class_object(ci: ClassInfo, attr: str) -> bool:
    """attr is declared at class level with a mutable display / constructor as default, in a class that is not a pydantic model
    (pydantic copies field defaults per instance), and no method of the class hierarchy assigns `self.attr = ...`."""
    owner = None
    for c in ci.mro():
        if attr in c.fields:
            owner = c
            break
    if owner is None:
        return False
    d = owner.fields[attr][1]
    mutable = isinstance(d, (ast.Dict, ast.List, ast.Set)) or (isinstance(d, ast.Call) and isinstance(d.func, ast.Name) and d.func.id in ("dict", "list", "set", "defaultdict"))
    if not mutable:
        return False
    if any(b.split(".")[-1] in ("BaseModel", "BaseSettings") for b in ci.all_ext_bases()):
        return False
    for c in list(ci.mro()) + list(ci.subclasses()):
        for m in c.methods.values():
            for n in ast.walk(m.node):
                if isinstance(n, (ast.Assign, ast.AnnAssign)):
                    for t in (n.targets if isinstance(n, ast.Assign) else [n.target]):
                        if isinstance(t, ast.Attribute) and isinstance(t.value, ast.Name) and t.value.id == "self" and t.attr == attr:
                            return False
    return True


def class_state_stores(allow: Dict[str, str]) -> List[dict]:
    """Stores to class attributes / module globals and mutations of module-level or ClassVar mutable objects from
    inside functions.  Allowed without listing: __init_subclass__ registries.  `allow` maps 'qualname:attr' -> reason."""
    out = []
    repo = Repo.get()
    for fi in _functions():
        if fi.name == "__init_subclass__":
            continue
        mod = fi.module
        globals_declared = {n for st in ast.walk(fi.node) if isinstance(st, ast.Global) for n in st.names}
        mutable_globals = {n for n, g in mod.globals.items() if g[0] == "assign" and isinstance(g[1], (ast.Dict, ast.List, ast.Set, ast.DictComp, ast.ListComp))
                           or (g[0] == "assign" and isinstance(g[1], ast.Call) and isinstance(g[1].func, ast.Name) and g[1].func.id in ("dict", "list", "set", "defaultdict"))}
        params = {a.arg for a in fi.node.args.args + fi.node.args.kwonlyargs}
        local_names = {n.id for n in ast.walk(fi.node) if isinstance(n, ast.Name) and isinstance(n.ctx, ast.Store)} | params

        def is_class_expr(e) -> str:
            """'' if not a class object expression; else a printable name."""
            if isinstance(e, ast.Name):
                if e.id == "cls" and fi.is_classmethod:
                    return "cls"
                if e.id in local_names:
                    return ""
                r = mod.resolve_name(e.id)
                return e.id if isinstance(r, ClassInfo) else ""
            if isinstance(e, ast.Attribute) and e.attr == "__class__":
                return "self.__class__"
            if isinstance(e, ast.Call) and isinstance(e.func, ast.Name) and e.func.id == "type" and len(e.args) == 1:
                return "type(...)"
            if isinstance(e, ast.Attribute):
                r = mod.resolve_expr(e, fi.cls)
                return ast.unparse(e) if isinstance(r, ClassInfo) else ""
            return ""

        # statements nested in a branch / loop / handler: a class-level store there happens only sometimes, so an earlier
        # value survives -- reported under its own obligation name
        conditional = set()
        for outer in ast.walk(fi.node):
            if isinstance(outer, (ast.If, ast.For, ast.While, ast.Try)) and outer is not fi.node:
                for inner in ast.walk(outer):
                    if inner is not outer:
                        conditional.add(id(inner))
        for n in ast.walk(fi.node):
            tgts = []
            if isinstance(n, ast.Assign):
                tgts = n.targets
            elif isinstance(n, (ast.AugAssign, ast.AnnAssign)):
                tgts = [n.target]
            for t in tgts:
                for sub in ast.walk(t):
                    site = None
                    if isinstance(sub, ast.Attribute) and isinstance(sub.ctx, ast.Store):
                        c = is_class_expr(sub.value)
                        if c:
                            site = f"{c}.{sub.attr}"
                    elif isinstance(sub, ast.Name) and isinstance(sub.ctx, ast.Store) and sub.id in globals_declared:
                        site = f"global {sub.id}"
                    elif isinstance(sub, ast.Subscript) and isinstance(sub.ctx, ast.Store):
                        b = sub.value
                        if isinstance(b, ast.Name) and b.id in mutable_globals and b.id not in local_names:
                            site = f"{b.id}[...]"
                        elif isinstance(b, ast.Attribute) and is_class_expr(b.value):
                            site = f"{is_class_expr(b.value)}.{b.attr}[...]"
                    if site:
                        out.append((fi, sub.lineno, site, id(n) in conditional))
            # self.X.<mutator>() / self.X[k] = v where X is a class-level mutable object of a plain (non-pydantic) class that no method
            # rebinds per instance: the one object is shared by all instances
            shared = None
            if isinstance(n, ast.Call) and isinstance(n.func, ast.Attribute) and n.func.attr in MUTATORS:
                shared = (n.func.value, f".{n.func.attr}()")
            elif isinstance(n, (ast.Assign, ast.AugAssign)):
                for t_ in (n.targets if isinstance(n, ast.Assign) else [n.target]):
                    if isinstance(t_, ast.Subscript):
                        shared = (t_.value, "[...]")
            if shared is not None and fi.cls is not None:
                b_, how = shared
                if isinstance(b_, ast.Attribute) and isinstance(b_.value, ast.Name) and b_.value.id == "self" and _shared_class_object(fi.cls, b_.attr):
                    out.append((fi, n.lineno, f"self.{b_.attr}{how}:class-level-object", False))
            if isinstance(n, ast.Call) and isinstance(n.func, ast.Attribute) and n.func.attr in MUTATORS:
                b = n.func.value
                if isinstance(b, ast.Name) and b.id in mutable_globals and b.id not in local_names:
                    out.append((fi, n.lineno, f"{b.id}.{n.func.attr}()", False))
                elif isinstance(b, ast.Attribute) and is_class_expr(b.value):
                    out.append((fi, n.lineno, f"{is_class_expr(b.value)}.{b.attr}.{n.func.attr}()", False))
    obs = []
    for fi, line, site, cond in sorted(set(out), key=lambda x: (x[0].key, x[1], x[2])):
        key = f"{fi.qualname}:{site}"
        reason = allow.get(key)
        kind = "class_state.conditional" if cond else "class_state"
        obs.append(_ob("classstate", f"{kind}@{fi.qualname}:{site}", line, "discharged" if reason else "failed",
                       reason or f"{fi.key} line {line} writes process-wide state `{site}`" + (" only under a condition (an earlier value survives otherwise)" if cond else "")
                       + ": instances / episodes are no longer isolated",
                       f"no store to class attributes, module globals or module-level mutable objects ({site})"))
    if not obs:
        obs.append(_ob("classstate", "class_state@none", 0, "discharged", "", "no function under src/primaite writes class-level or module-level state"))
    return obs


def mutable_default_args() -> List[dict]:
    obs = []
    for fi in _functions():
        a = fi.node.args
        names = [x.arg for x in a.posonlyargs + a.args]
        for p, d in list(zip(names[len(names) - len(a.defaults):], a.defaults)) + [(k.arg, d) for k, d in zip(a.kwonlyargs, a.kw_defaults) if d is not None]:
            if isinstance(d, (ast.Dict, ast.List, ast.Set)) or (isinstance(d, ast.Call) and isinstance(d.func, ast.Name) and d.func.id in ("dict", "list", "set")):
                mutated = False
                for n in ast.walk(fi.node):
                    if isinstance(n, ast.Call) and isinstance(n.func, ast.Attribute) and n.func.attr in MUTATORS and isinstance(n.func.value, ast.Name) and n.func.value.id == p:
                        mutated = True
                    if isinstance(n, (ast.Assign, ast.AugAssign)):
                        for t in (n.targets if isinstance(n, ast.Assign) else [n.target]):
                            if isinstance(t, ast.Subscript) and isinstance(t.value, ast.Name) and t.value.id == p:
                                mutated = True
                obs.append(_ob("mutabledefault", f"mutable_default@{fi.qualname}:{p}", fi.node.lineno, "failed" if mutated else "discharged",
                               f"{fi.key}: mutable default argument `{p}` is mutated: state shared between calls" if mutated else "",
                               f"mutable default argument {p} of {fi.qualname} is never mutated"))
    return obs


# ------------------------------------------------------------------------------------------ C03: set iteration order
def _set_returning_functions() -> set:
    names = set()
    for fi in Repo.get().all_functions():
        r = fi.node.returns
        if r is not None and ast.unparse(r).split("[")[0] in ("Set", "set", "FrozenSet", "frozenset"):
            names.add(fi.name)
    return names


def _set_fields() -> set:
    out = set()
    for c in Repo.get().all_classes():
        for n, (ann, _d) in c.fields.items():
            if ann is not None and ast.unparse(ann).split("[")[0] in ("Set", "set", "FrozenSet"):
                out.add(n)
    return out


def set_iteration_sites(files, allow: Dict[str, str]) -> List[dict]:
    """Order-dependent uses of set-typed expressions (for loops, list()/tuple()/next(iter())/pop()/random.choice over a
    set) in the anchored files.  Discharged when wrapped in sorted()/min()/max()/len()/sum()/any()/all() or when the
    loop body only builds sets / keyed entries / counts (order-insensitive by shape)."""
    set_funcs = _set_returning_functions()
    set_fields = _set_fields()
    obs = []
    for fi in _functions(files):
        set_locals = set()
        for n in ast.walk(fi.node):
            if isinstance(n, (ast.Assign, ast.AnnAssign)):
                v = n.value
                tg = n.targets[0] if isinstance(n, ast.Assign) else n.target
                if v is not None and isinstance(tg, ast.Name) and _is_set_expr(v, set_locals, set_funcs, set_fields):
                    set_locals.add(tg.id)
                if isinstance(n, ast.AnnAssign) and isinstance(tg, ast.Name) and ast.unparse(n.annotation).split("[")[0] in ("Set", "set"):
                    set_locals.add(tg.id)
        for a in fi.node.args.args + fi.node.args.kwonlyargs:
            if a.annotation is not None and ast.unparse(a.annotation).split("[")[0] in ("Set", "set"):
                set_locals.add(a.arg)
        parents = {}
        for p in ast.walk(fi.node):
            for c in ast.iter_child_nodes(p):
                parents[id(c)] = p

        def site(node, what, it):
            if not _is_set_expr(it, set_locals, set_funcs, set_fields):
                return
            key = f"{fi.qualname}:{ast.unparse(it)[:60]}"
            ok, why = False, ""
            if isinstance(node, ast.For) and _order_insensitive_body(node.body):
                ok, why = True, "loop body only adds to sets / keyed entries / counters"
            if isinstance(node, (ast.SetComp,)):
                ok, why = True, "set comprehension: result is a set"
            par = parents.get(id(node))
            if isinstance(node, (ast.GeneratorExp, ast.ListComp)) and isinstance(par, ast.Call) and isinstance(par.func, ast.Name) and \
                    par.func.id in ("sorted", "set", "frozenset", "sum", "any", "all", "min", "max", "len"):
                ok, why = True, f"consumed by {par.func.id}()"
            for ak, reason in allow.items():
                if key.startswith(ak):
                    ok, why = True, reason
            obs.append(_ob("setorder", f"set_order@{fi.qualname}:L{node.lineno}:{what}", node.lineno, "discharged" if ok else "failed",
                           why if ok else f"{fi.key} line {node.lineno}: {what} over the set `{ast.unparse(it)[:60]}` depends on hash order "
                                          "(PYTHONHASHSEED): iterate sorted(...) instead", f"{what} over a set is order-insensitive"))
        for n in ast.walk(fi.node):
            if isinstance(n, ast.For):
                site(n, "for-loop", n.iter)
            elif isinstance(n, (ast.ListComp, ast.GeneratorExp, ast.DictComp, ast.SetComp)):
                for g in n.generators:
                    site(n, "comprehension", g.iter)
            elif isinstance(n, ast.Call) and isinstance(n.func, ast.Name) and n.func.id in ("list", "tuple", "next", "iter", "enumerate") and n.args:
                par = parents.get(id(n))
                if isinstance(par, ast.Call) and isinstance(par.func, ast.Name) and par.func.id in ("sorted", "len", "set"):
                    continue
                site(n, f"{n.func.id}()", n.args[0])
            elif isinstance(n, ast.Call) and isinstance(n.func, ast.Attribute) and n.func.attr == "pop" and not n.args:
                site(n, "pop()", n.func.value)
    return obs


def _is_set_expr(e, set_locals, set_funcs, set_fields) -> bool:
    if isinstance(e, (ast.Set, ast.SetComp)):
        return True
    if isinstance(e, ast.Call):
        f = e.func
        if isinstance(f, ast.Name) and f.id in ("set", "frozenset"):
            return True
        if isinstance(f, ast.Name) and f.id in set_funcs:
            return True
        if isinstance(f, ast.Attribute) and f.attr in set_funcs:
            return True
        if isinstance(f, ast.Attribute) and f.attr in ("union", "intersection", "difference", "symmetric_difference") :
            return _is_set_expr(f.value, set_locals, set_funcs, set_fields)
    if isinstance(e, ast.Name) and e.id in set_locals:
        return True
    if isinstance(e, ast.Attribute) and e.attr in set_fields:
        return True
    if isinstance(e, ast.BinOp) and isinstance(e.op, (ast.BitOr, ast.BitAnd, ast.Sub)):
        return _is_set_expr(e.left, set_locals, set_funcs, set_fields) and _is_set_expr(e.right, set_locals, set_funcs, set_fields)
    return False


def _order_insensitive_body(body) -> bool:
    for st in body:
        if isinstance(st, ast.Expr) and isinstance(st.value, ast.Call):
            f = st.value.func
            if isinstance(f, ast.Attribute) and f.attr in ("add", "discard", "update"):
                continue
            if isinstance(f, ast.Attribute) and isinstance(f.value, ast.Attribute) and f.value.attr in ("sys_log", "logger"):
                continue
            if isinstance(f, ast.Attribute) and isinstance(f.value, ast.Name) and f.value.id in ("_LOGGER",):
                continue
            return False
        if isinstance(st, ast.Assign) and len(st.targets) == 1 and isinstance(st.targets[0], ast.Subscript):
            continue
        if isinstance(st, ast.AugAssign) and isinstance(st.op, ast.Add) and isinstance(st.value, ast.Constant):
            continue
        if isinstance(st, ast.If) and _order_insensitive_body(st.body) and _order_insensitive_body(st.orelse):
            continue
        if isinstance(st, (ast.Pass, ast.Continue)):
            continue
        return False
    return True


# ------------------------------------------------------------------------------------------ C03: unpredictable sources
SOURCES = {"uuid4": "uuid.uuid4", "uuid1": "uuid.uuid1", "now": "datetime.now", "utcnow": "datetime.utcnow", "time": "time.time",
           "perf_counter": "time.perf_counter", "monotonic": "time.monotonic", "default_rng": "numpy.random.default_rng",
           "token_hex": "secrets.token_hex", "token_urlsafe": "secrets.token_urlsafe", "token_bytes": "secrets.token_bytes",
           "randbits": "secrets.randbits", "randbelow": "secrets.randbelow", "SystemRandom": "random.SystemRandom",
           "urandom": "os.urandom", "getpid": "os.getpid"}


def unpredictable_sources(allow: Dict[str, str]) -> List[dict]:
    """Calls whose value differs between processes / runs (uuid, wall clock, id(), hash(), unseeded generators)."""
    obs = []
    for fi in _functions():
        for n in ast.walk(fi.node):
            if not isinstance(n, ast.Call):
                continue
            f = n.func
            nm = f.id if isinstance(f, ast.Name) else (f.attr if isinstance(f, ast.Attribute) else "")
            what = None
            if nm in SOURCES and not (nm == "time" and isinstance(f, ast.Name)):
                if nm == "default_rng" and n.args:
                    continue
                if nm in ("now", "time") and isinstance(f, ast.Attribute) and not (isinstance(f.value, ast.Name) and f.value.id in ("datetime", "time", "dt")):
                    continue
                what = SOURCES[nm]
            elif isinstance(f, ast.Name) and f.id in ("id", "hash") and len(n.args) == 1:
                what = f.id + "()"
            if what is None:
                continue
            key = f"{fi.qualname}:{what}"
            reason = allow.get(key)
            obs.append(_ob("source", f"unpredictable@{fi.qualname}:L{n.lineno}:{what}", n.lineno, "discharged" if reason else "unknown",
                           reason or f"{fi.key} line {n.lineno}: new use of {what}; its flow into observations / rewards / control has not been reviewed",
                           f"{what} flows only into identifiers / timestamps / logs"))
    return obs


# ------------------------------------------------------------------- C03: output settings do not steer the random stream
RNG_NAMES = {"randint", "choice", "choices", "random", "uniform", "shuffle", "sample", "integers", "normal", "randrange", "default_rng", "seed"}


def _rng_consumers() -> set:
    """Names of repository functions / properties that (transitively, by bare name) draw from a random generator."""
    direct = set()
    calls: Dict[str, set] = {}
    for fi in _functions():
        names = set()
        for n in ast.walk(fi.node):
            if isinstance(n, ast.Call):
                f = n.func
                if isinstance(f, ast.Attribute):
                    base = f.value
                    chain = ast.unparse(base)
                    if f.attr in RNG_NAMES and ("random" in chain or "rng" in chain.lower()):
                        direct.add(fi.name)
                    names.add(f.attr)
                elif isinstance(f, ast.Name):
                    names.add(f.id)
            elif isinstance(n, ast.Attribute):
                names.add(n.attr)  # property reads
        calls.setdefault(fi.name, set()).update(names)
    consumers = set(direct)
    changed = True
    while changed:
        changed = False
        for fn, names in calls.items():
            if fn not in consumers and names & consumers:
                consumers.add(fn)
                changed = True
    return consumers


def output_guarded_randomness() -> List[dict]:
    """A block that runs only under an output/logging setting (SIM_OUTPUT.*, io.settings.*, save_step_metadata) must not
    draw random numbers -- directly or through a repository function or property that does -- otherwise the seeded
    stream, and with it the trajectory, depends on the logging settings."""
    obs = []
    consumers = None
    for fi in _functions():
        for n in ast.walk(fi.node):
            if not isinstance(n, ast.If):
                continue
            test = ast.unparse(n.test)
            if not ("SIM_OUTPUT" in test or "io.settings" in test or "save_step_metadata" in test or "save_agent_actions" in test):
                continue
            if consumers is None:
                consumers = _rng_consumers()
            hits = []
            for st in n.body + n.orelse:
                for m in ast.walk(st):
                    if isinstance(m, ast.Attribute) and (m.attr in consumers or (m.attr in RNG_NAMES and "random" in ast.unparse(m.value))):
                        hits.append(f"{ast.unparse(m)}@L{m.lineno}")
                    elif isinstance(m, ast.Call) and isinstance(m.func, ast.Name) and m.func.id in consumers:
                        hits.append(f"{m.func.id}()@L{m.lineno}")
            name = f"output_guard@{fi.qualname}:L{n.lineno}"
            if hits:
                obs.append(_ob("output_guard", name, n.lineno, "failed",
                               f"{fi.key} line {n.lineno}: code that runs only when `{test}` holds reaches a random draw ({', '.join(sorted(set(hits))[:4])}): "
                               f"the random stream would depend on output settings", "no random draw under an output-setting guard"))
            else:
                obs.append(_ob("output_guard", name, n.lineno, "discharged", "", "no random draw under an output-setting guard"))
    return obs


# ------------------------------------------------- C12: every request route of a node is gated by the node's power state
def routes_gated(base_class: str, allow: Dict[str, str]) -> List[dict]:
    """Like node_routes_gated, for `_init_request_manager` of exactly `base_class` (Service, Application: the documented life-cycle
    requests carry their operating-state rule; subclasses' own extra routes check inside their handlers and are not covered)."""
    return [o for o in node_routes_gated(allow, base_class) if o["name"].startswith(f"route_gated@{base_class}:")]


def node_routes_gated(allow: Dict[str, str], base_class: str = "Node") -> List[dict]:
    """In `_init_request_manager` of Node and its subclasses every `rm.add_request(name, RequestType(...))` on the node's own
    request manager must carry a validator (the node-is-on rule; `startup` carries node-is-off).  `allow` maps
    'Class:route' -> reason for routes that are deliberately open."""
    obs = []
    repo = Repo.get()
    node = repo.class_by_name(base_class)
    for fi in _functions():
        if fi.name != "_init_request_manager" or fi.cls is None or node not in fi.cls.mro():
            continue
        # the node's own manager is the one obtained from super()._init_request_manager()
        own = set()
        for n in ast.walk(fi.node):
            if isinstance(n, ast.Assign) and isinstance(n.value, ast.Call) and isinstance(n.value.func, ast.Attribute) \
                    and n.value.func.attr == "_init_request_manager" and len(n.targets) == 1 and isinstance(n.targets[0], ast.Name):
                own.add(n.targets[0].id)
        for n in ast.walk(fi.node):
            if not (isinstance(n, ast.Call) and isinstance(n.func, ast.Attribute) and n.func.attr == "add_request"
                    and isinstance(n.func.value, ast.Name) and n.func.value.id in own and n.args):
                continue
            route = n.args[0].value if isinstance(n.args[0], ast.Constant) else ast.unparse(n.args[0])
            rt = n.args[1] if len(n.args) > 1 else next((k.value for k in n.keywords if k.arg == "request_type"), None)
            has_validator = isinstance(rt, ast.Call) and any(k.arg == "validator" for k in rt.keywords)
            key = f"{fi.cls.name}:{route}"
            name = f"route_gated@{fi.cls.name}:{route}"
            if has_validator or key in allow:
                obs.append(_ob("route_gated", name, n.lineno, "discharged", allow.get(key, ""), "route carries a power-state validator"))
            else:
                obs.append(_ob("route_gated", name, n.lineno, "failed",
                               f"{fi.key} line {n.lineno}: the route `{route}` of {fi.cls.name}'s request manager has no validator: requests on it are "
                               f"served whatever the node's power state", "route carries a power-state validator"))
    return obs


# ------------------------- C11: nothing that runs between reading the mask and applying the action changes what the rules read
def pre_timestep_keeps_rule_state(fields=("operating_state", "enabled", "deleted")) -> List[dict]:
    """`pre_timestep` runs inside a step after the policy has read the action mask and before the chosen action is applied; it
    must therefore not store to the attributes the permission rules (validators) read."""
    obs = []
    for fi in _functions():
        if fi.name != "pre_timestep":
            continue
        hits = []
        for n in ast.walk(fi.node):
            tgts = n.targets if isinstance(n, ast.Assign) else ([n.target] if isinstance(n, (ast.AugAssign, ast.AnnAssign)) else [])
            for t in tgts:
                for sub in ast.walk(t):
                    if isinstance(sub, ast.Attribute) and isinstance(sub.ctx, ast.Store) and sub.attr in fields:
                        hits.append(f"{ast.unparse(sub)}@L{sub.lineno}")
        name = f"pre_timestep_rule_state@{fi.qualname}"
        if hits:
            obs.append(_ob("mask_window", name, fi.node.lineno, "failed",
                           f"{fi.key} stores to {', '.join(hits)} in pre_timestep: the state a permission rule reads changes between the mask and the action",
                           "pre_timestep does not store to rule-read state"))
        else:
            obs.append(_ob("mask_window", name, fi.node.lineno, "discharged", "", "pre_timestep does not store to rule-read state"))
    return obs


# ------------------------------------------------------------------- C04: a game is set up for its episode wherever one is built
def built_games_are_set_up(files=("src/primaite/session/",)) -> List[dict]:
    """`reset()` builds the next episode's game with PrimaiteGame.from_config and then runs game.setup_for_episode(); "an environment
    after reset behaves like a newly constructed one" needs the constructor to go through the same two steps.  One obligation per
    function of the session layer that builds a game: it also sets it up."""
    obs = []
    for fi in _functions(files):
        builds, setups = [], []
        for n in ast.walk(fi.node):
            if isinstance(n, ast.Call) and isinstance(n.func, ast.Attribute):
                if n.func.attr == "from_config" and isinstance(n.func.value, ast.Name) and n.func.value.id == "PrimaiteGame":
                    builds.append(n)
                elif n.func.attr == "setup_for_episode":
                    setups.append(n)
        for b in builds:
            ok = any(s_.lineno > b.lineno for s_ in setups)
            obs.append(_ob("scan", f"setup_after_build@{fi.qualname}", b.lineno, "discharged" if ok else "failed",
                           "" if ok else f"{fi.key} line {b.lineno}: builds a game with PrimaiteGame.from_config but never runs setup_for_episode on it, "
                                         f"while reset() does: the first episode starts from a differently prepared simulation than every later one",
                           "every function that builds a game also sets it up for its episode"))
    return obs


# ------------------------------------------------------------------- C04: cached values must not outlive what they were computed from
CACHE_DECOS = ("cached_property", "functools.cached_property", "lru_cache", "functools.lru_cache", "cache", "functools.cache")


def cached_values_stay_valid() -> List[dict]:
    """A cached property / memoised method of class C that reads (directly or through other properties of C) an attribute which
    another method of C re-assigns after construction keeps returning the value computed from the OLD object -- e.g. the spaces
    of an environment whose game is rebuilt by reset().  One obligation per cached function."""
    obs = []
    repo = Repo.get()
    by_cls: Dict[int, list] = {}
    for fi in repo.all_functions():
        if fi.cls is not None:
            by_cls.setdefault(id(fi.cls), []).append(fi)
    for fi in repo.all_functions():
        if fi.cls is None or not any(d.split("(")[0] in CACHE_DECOS for d in fi.decorators):
            continue
        methods = {m.name: m for c in fi.cls.mro() for m in c.methods.values()}

        def reads(m, seen):
            out = set()
            for n in ast.walk(m.node):
                if isinstance(n, ast.Attribute) and isinstance(n.value, ast.Name) and n.value.id == "self" and isinstance(n.ctx, ast.Load):
                    out.add(n.attr)
                    m2 = methods.get(n.attr)
                    if m2 is not None and m2.is_property and m2.name not in seen:
                        out |= reads(m2, seen | {m2.name})
            return out
        r = reads(fi, {fi.name})
        culprit = None
        for m in methods.values():
            if m.name in ("__init__", "__post_init__", "model_post_init") or m is fi:
                continue
            for n in ast.walk(m.node):
                if isinstance(n, (ast.Assign, ast.AnnAssign, ast.AugAssign)):
                    for t in (n.targets if isinstance(n, ast.Assign) else [n.target]):
                        if isinstance(t, ast.Attribute) and isinstance(t.value, ast.Name) and t.value.id == "self" and t.attr in r:
                            culprit = (m.qualname, t.attr, n.lineno)
        obs.append(_ob("scan", f"cached_value@{fi.qualname}", fi.node.lineno, "failed" if culprit else "discharged",
                       "" if not culprit else f"{fi.key}: cached, but computed from self.{culprit[1]}, which {culprit[0]} re-assigns (line {culprit[2]}): "
                                              f"after that the cached value describes the old object",
                       "a cached value does not depend on an attribute that is re-assigned after construction"))
    if not obs:
        obs.append(_ob("scan", "cached_value@none", 0, "discharged", "", "no cached property / memoised method in the tree"))
    return obs
