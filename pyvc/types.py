"""Static type hints derived from the real annotations (used to pick encodings, never trusted beyond assumption A7)."""
from __future__ import annotations

import ast
from typing import Optional

from .repo import ClassInfo, ModuleInfo, Repo


class Ty:
    __slots__ = ("k", "a")

    def __init__(self, k, *a):
        self.k = k
        self.a = a

    def __repr__(self):
        if not self.a:
            return self.k
        return f"{self.k}[{', '.join(repr(x) if isinstance(x, Ty) else getattr(x, 'name', str(x)) for x in self.a)}]"

    def __eq__(self, o):
        return isinstance(o, Ty) and self.k == o.k and self.a == o.a

    def __hash__(self):
        return hash((self.k,) + tuple(id(x) if isinstance(x, ClassInfo) else x for x in self.a))


ANY = Ty("any")
INT = Ty("int")
BOOL = Ty("bool")
FLOAT = Ty("float")
STR = Ty("str")
IP = Ty("ip")
NONE = Ty("none")
CALLABLE = Ty("callable")


def OBJ(c):
    return Ty("obj", c)


def ENUM(c):
    return Ty("enum", c)


def OPT(t):
    if t.k in ("opt", "none", "any"):
        return t
    return Ty("opt", t)


def LIST(t=ANY):
    return Ty("list", t)


def DICT(k=ANY, v=ANY):
    return Ty("dict", k, v)


def SET(t=ANY):
    return Ty("set", t)


def TUPLE(*ts):
    return Ty("tuple", *ts)


def EXT(name):
    return Ty("ext", name)


def strip_opt(t: Ty) -> Ty:
    return t.a[0] if t.k == "opt" else t


def join(a: Optional[Ty], b: Optional[Ty]) -> Ty:
    if a is None or b is None:
        return ANY
    if a == b:
        return a
    if a.k == "none":
        return OPT(b)
    if b.k == "none":
        return OPT(a)
    if a.k == "opt" or b.k == "opt":
        j = join(strip_opt(a), strip_opt(b))
        return OPT(j)
    if a.k == "obj" and b.k == "obj":
        for c in a.a[0].mro():
            if c in b.a[0].mro():
                return OBJ(c)
        return ANY
    if {a.k, b.k} == {"int", "float"}:
        return FLOAT
    if {a.k, b.k} == {"int", "bool"}:
        return INT
    if a.k == b.k and a.k in ("list", "dict", "set"):
        return Ty(a.k, *[join(x, y) for x, y in zip(a.a, b.a)])
    return ANY


_SIMPLE = {
    "int": INT, "str": STR, "bool": BOOL, "float": FLOAT, "Any": ANY, "object": ANY, "None": NONE,
    "dict": DICT(), "Dict": DICT(), "list": LIST(), "List": LIST(), "set": SET(), "Set": SET(), "tuple": TUPLE(),
    "Tuple": TUPLE(), "Callable": CALLABLE, "Iterable": LIST(), "Sequence": LIST(), "Mapping": DICT(),
    "RequestFormat": LIST(ANY), "Number": FLOAT,
}

_EXT_MAP = {
    "ipaddress.IPv4Address": IP,
    "datetime.datetime": EXT("datetime"),
    "ipaddress.IPv4Network": EXT("IPv4Network"),
    "numpy.random.Generator": EXT("rng"),
    "numpy.random._generator.Generator": EXT("rng"),
    "pathlib.Path": EXT("Path"),
}


def parse_ann(node, module: ModuleInfo, cls: Optional[ClassInfo] = None, depth=0) -> Ty:
    if node is None or depth > 8:
        return ANY
    if isinstance(node, ast.Constant):
        if node.value is None:
            return NONE
        if isinstance(node.value, str):
            try:
                return parse_ann(ast.parse(node.value, mode="eval").body, module, cls, depth + 1)
            except SyntaxError:
                return ANY
        return ANY
    if isinstance(node, ast.Name) or isinstance(node, ast.Attribute):
        name = node.id if isinstance(node, ast.Name) else node.attr
        r = module.resolve_expr(node, cls)
        if isinstance(r, ClassInfo):
            return ENUM(r) if r.is_enum else OBJ(r)
        if isinstance(r, tuple) and r[0] == "ext":
            if r[1] in _EXT_MAP:
                return _EXT_MAP[r[1]]
            if name in _SIMPLE:
                return _SIMPLE[name]
            return EXT(r[1])
        if isinstance(r, tuple) and r[0] == "assign":
            return parse_ann(r[2], r[1], None, depth + 1)
        if name in _SIMPLE:
            return _SIMPLE[name]
        if r is None and isinstance(node, ast.Name):
            try:  # a class of the repository that this module does not import (sidecar type declarations)
                c = Repo.get().class_by_name(name)
                return ENUM(c) if c.is_enum else OBJ(c)
            except KeyError:
                pass
        return ANY
    if isinstance(node, ast.Subscript):
        head = node.value
        hname = head.id if isinstance(head, ast.Name) else (head.attr if isinstance(head, ast.Attribute) else "")
        sl = node.slice
        args = list(sl.elts) if isinstance(sl, ast.Tuple) else [sl]
        P = lambda n: parse_ann(n, module, cls, depth + 1)  # noqa: E731
        if hname == "Optional":
            return OPT(P(args[0]))
        if hname in ("List", "list", "Iterable", "Sequence"):
            return LIST(P(args[0]))
        if hname in ("Dict", "dict", "Mapping", "DefaultDict"):
            return DICT(P(args[0]), P(args[1]) if len(args) > 1 else ANY)
        if hname in ("Set", "set", "FrozenSet", "frozenset"):
            return SET(P(args[0]))
        if hname in ("Tuple", "tuple"):
            return TUPLE(*[P(a) for a in args if not (isinstance(a, ast.Constant) and a.value is Ellipsis)])
        if hname in ("Annotated", "Final", "ClassVar"):
            if hname == "Final" and isinstance(args[0], ast.Name) and args[0].id == "Annotated":
                return ANY
            return P(args[0])
        if hname == "Union":
            ts = [P(a) for a in args]
            non = [t for t in ts if t.k != "none"]
            if len(non) == 1:
                return OPT(non[0]) if len(non) != len(ts) else non[0]
            j = non[0]
            for t in non[1:]:
                j = join(j, t)
            return OPT(j) if len(non) != len(ts) else j
        if hname == "Literal":
            v = args[0]
            if isinstance(v, ast.Constant):
                return {str: STR, int: INT, bool: BOOL}.get(type(v.value), ANY)
            return ANY
        if hname == "Type":
            return Ty("type", P(args[0]))
        if hname == "Callable":
            return CALLABLE
        return P(head)
    if isinstance(node, ast.BinOp) and isinstance(node.op, ast.BitOr):
        l, r = parse_ann(node.left, module, cls, depth + 1), parse_ann(node.right, module, cls, depth + 1)
        return join(l, r)
    return ANY


def field_type(ci: ClassInfo, name: str) -> Optional[Ty]:
    f = ci.find_field(name)
    if f is None:
        return None
    owner, (ann, _d) = f
    if ann is None:
        return None
    return parse_ann(ann, owner.module, owner)
