"""Whole-tree syntactic obligations (decidable, no solver): field-writer frames."""
from __future__ import annotations

import ast
from typing import List

from .repo import Repo


def attribute_stores(attr: str):
    """Yield (function key, line) for every store to an attribute named `attr` anywhere under src/primaite."""
    repo = Repo.get()
    for fi in repo.all_functions():
        for n in ast.walk(fi.node):
            tgts = []
            if isinstance(n, ast.Assign):
                tgts = n.targets
            elif isinstance(n, (ast.AugAssign, ast.AnnAssign)):
                tgts = [n.target]
            elif isinstance(n, ast.Delete):
                tgts = n.targets
            elif isinstance(n, ast.Call) and isinstance(n.func, ast.Name) and n.func.id == "setattr" and len(n.args) >= 2 \
                    and isinstance(n.args[1], ast.Constant) and n.args[1].value == attr:
                yield fi.key, n.lineno
            for t in tgts:
                for sub in ast.walk(t):
                    if isinstance(sub, ast.Attribute) and sub.attr == attr and isinstance(sub.ctx, (ast.Store, ast.Del)):
                        yield fi.key, sub.lineno
    # module-level statements
    for m in repo.modules.values():
        for st in m.tree.body:
            if isinstance(st, (ast.FunctionDef, ast.ClassDef)):
                continue
            for sub in ast.walk(st):
                if isinstance(sub, ast.Attribute) and sub.attr == attr and isinstance(sub.ctx, (ast.Store, ast.Del)):
                    yield f"{m.relpath}::<module>", sub.lineno


def check_writers(rule) -> List[dict]:
    """One obligation per store site; `discharged` iff the enclosing function is in the allowed list."""
    out = []
    allowed = set(rule["allowed"])
    sites = sorted(set(attribute_stores(rule["attr"])))
    for key, line in sites:
        qual = key.split("::", 1)[1]
        ok = key in allowed or qual in allowed or any(qual.startswith(a + ".") for a in allowed) \
            or any(a.startswith("*.") and qual.endswith(a[1:]) for a in allowed)  # "*.__init__": any constructor
        out.append({"name": f"writers.{rule['attr']}@{qual}:L{line}", "kind": "writers", "label": rule["attr"], "line": line,
                    "path": "-", "status": "discharged" if ok else "failed", "backend": "syntactic", "secs": 0.0,
                    "detail": "" if ok else f"store to .{rule['attr']} in {key} which is not an allowed writer ({sorted(allowed)})",
                    "model": None, "smt_head": f"writer of .{rule['attr']} in {sorted(allowed)}"})
    if not sites:
        ok = not allowed  # "never written" is what an empty allow-list asks for; otherwise the rule lost its anchor
        out.append({"name": f"writers.{rule['attr']}@none", "kind": "writers", "label": rule["attr"], "line": 0, "path": "-",
                    "status": "discharged" if ok else "failed", "backend": "syntactic", "secs": 0.0,
                    "detail": "" if ok else f"no store to .{rule['attr']} found at all: the rule no longer attaches", "model": None,
                    "smt_head": f"no store to .{rule['attr']} anywhere under src/primaite"})
    return out
