"""check <PROPERTY-ID> [--tier quick|thorough] [--replay FILE]

Exit codes: 0 every obligation of the property's kernel discharged (known findings excepted)
            1 VIOLATION (a named obligation is refuted; replayed natively where the model is a function entry state)
            2 UNDECIDED (solver gave up / counter-model does not reproduce natively) -- never reported as a violation
            3 CHECKER-ERROR (code outside the modelled subset, contract no longer attaches, crash)
"""
from __future__ import annotations

import argparse
import glob
import importlib
import json
import multiprocessing as mp
import os
import sys
import time
from typing import Any, Dict, List

ROOT = os.path.dirname(os.path.dirname(os.path.abspath(__file__)))
sys.path.insert(0, ROOT)

from pyvc.contracts import REG  # noqa: E402
from pyvc.repo import REPO, Repo  # noqa: E402


def load_contracts():
    for f in sorted(glob.glob(os.path.join(ROOT, "contracts", "*.py"))):
        name = os.path.basename(f)[:-3]
        if name != "__init__":
            importlib.import_module("contracts." + name)


def load_known():
    p = os.path.join(ROOT, "known_findings.json")
    if not os.path.exists(p):
        return []
    return json.load(open(p)).get("findings", [])


def split_tasks(key, cfg):
    """For a function with many paths: enumerate decision prefixes of the contract's split depth (cheap, no solving of
    obligations) and return one task per prefix."""
    from pyvc.verify import verify_fuc
    con = REG.contracts[key]
    ecfg = dict(cfg)
    ecfg["enumerate_depth"] = con.split
    res = verify_fuc(key, ecfg)
    if res.error:
        return [(key, cfg)]
    seen, out = set(), []
    for p_ in res.prefixes:
        t = tuple(p_)
        if t not in seen:
            seen.add(t)
            c2 = dict(cfg)
            c2["start_trace"] = list(p_)
            out.append((key, c2))
    return out or [(key, cfg)]


def split_tasks_star(a):
    return split_tasks(*a)


def merge_results(parts):
    base = parts[0]
    for p_ in parts[1:]:
        base["obligations"] += p_["obligations"]
        base["paths"] += p_["paths"]
        base["refutations"] += p_["refutations"]
        base["secs"] = max(base["secs"], p_["secs"])
        base["error"] = base["error"] or p_["error"]
        for l in p_["log"]:
            if l not in base["log"]:
                base["log"].append(l)
    return base


def worker(args):
    key, cfg = args
    from pyvc.verify import verify_fuc
    from pyvc import replay as rp
    t0 = time.time()
    con = REG.contracts[key]
    bcfg = dict(cfg)
    if con.bounded:
        # bounded stand-in (never counted as proved): every list/dict has at most K elements, loops unrolled K times
        bcfg.update({"ground": con.bounded, "unroll": con.bounded, "timeout_ms": max(cfg.get("timeout_ms", 15000), 20000), "both": False})
    res = verify_fuc(key, bcfg)
    if con.bounded:
        for o in res.obligations:
            o["bounded"] = con.bounded
    out = {"key": key, "file": res.file, "qualname": res.qualname, "sha256": res.sha, "lines": list(res.lines),
           "paths": res.paths, "error": res.error, "obligations": res.obligations, "log": res.log, "refutations": [],
           "secs": 0.0}
    out["bounded"] = con.bounded
    # an undecided frame obligation is decided syntactically when the function visibly stores to an attribute of `self` that
    # no `modifies` entry mentions (the solver could not prove the frame, and here is the write that breaks it)
    if any(o["kind"] == "frame" and o["status"] == "unknown" for o in res.obligations) and con.modifies is not None and "heap" not in con.modifies:
        sites = _unlisted_self_stores(key, con)
        if sites:
            for o in res.obligations:
                if o["kind"] == "frame" and o["status"] == "unknown":
                    o["status"], o["backend"] = "failed", "syntactic"
                    o["detail"] = "store outside the declared frame: " + "; ".join(sites[:3])
    bad = [o for o in res.obligations if o["status"] != "discharged" and not o.get("known")]
    if con.bounded and res.error is None:
        # replay the bounded counter-models directly
        seen: Dict[str, int] = {}
        for o in res.obligations:
            if o["status"] == "failed" and o["model"] and seen.get(o["name"], 0) < 3:
                seen[o["name"]] = seen.get(o["name"], 0) + 1
                out["refutations"].append({"bound": con.bounded, "obligation": o["name"], "kind": o["kind"], "label": o["label"],
                                           "path": o["path"], "model": o["model"], "replay": rp.replay(key, o["model"], o)})
            elif o["status"] == "unknown" and o["model"] and str(o.get("detail", "")).startswith("candidate model") and seen.get(o["name"], 0) < 4:
                # the solver could not decide the bounded VC but left a candidate: it counts only if the real code fails on it
                seen[o["name"]] = seen.get(o["name"], 0) + 1
                r_ = rp.replay(key, o["model"], o)
                if r_.get("reproduced"):
                    o["status"] = "failed"
                    out["refutations"].append({"bound": con.bounded, "obligation": o["name"], "kind": o["kind"], "label": o["label"],
                                               "path": o["path"], "model": o["model"], "replay": r_})
    elif (bad and res.error is None) or (res.error and "needs an invariant" in res.error):
        # (a loop that has no invariant -- typically one a change has just added -- stops the proof; the bounded search, which
        # unrolls loops, can still find a replayable failure of one of the function's clauses)
        # refutation pass: bounded unrolling + grounded quantifiers, only to search real failing inputs; its models are
        # candidates that count only when the native replay reproduces them
        done = set()
        for K in cfg.get("refute_bounds", [2, 3]):
            rcfg = dict(cfg)
            rcfg.update({"ground": K, "unroll": K, "timeout_ms": cfg.get("refute_timeout_ms", 20000), "both": False,
                         "stop_after_failures": 12, "cvc5": False, "fuc_budget_s": cfg.get("refute_budget_s", 120)})
            if not any(o["kind"] == "loopinv" for o in bad) and any(o["kind"] != "budget" for o in bad):
                # (a failing loop obligation has no counterpart once loops are unrolled: then every obligation is looked at)
                rcfg["only_obligations"] = {o["name"] for o in bad if o["kind"] != "budget"}
            rres = verify_fuc(key, rcfg)
            if rres.error:
                out["refutations"].append({"bound": K, "error": rres.error})
                continue
            seen: Dict[str, int] = {}
            found = False
            for o in rres.obligations:
                candidate = o["status"] == "unknown" and o["model"] and str(o.get("detail", "")).startswith("candidate model")
                if (o["status"] == "failed" or candidate) and o["model"] and not o.get("known"):
                    if seen.get(o["name"], 0) >= 4 or o["name"] in done:
                        continue
                    seen[o["name"]] = seen.get(o["name"], 0) + 1
                    r = rp.replay(key, o["model"], o)
                    if candidate and not r.get("reproduced"):
                        continue  # an unconfirmed candidate is not a counter-model
                    uf = [l for l in list(rres.log) + list(res.log) if l.startswith("UFUN-ASSUMED")]
                    if r.get("reproduced") is False and uf:
                        # the native state cannot be made to agree with the model on values the proof takes from an
                        # uninterpreted function (assumed contract), so "did not reproduce" says nothing here
                        r["reproduced"] = None
                        r["detail"] = (r.get("detail", "") + " -- inconclusive: " + uf[0])[:600]
                    out["refutations"].append({"bound": K, "obligation": o["name"], "kind": o["kind"], "label": o["label"],
                                               "path": o["path"], "model": o["model"], "replay": r})
                    if r.get("reproduced"):
                        found = True
                        done.add(o["name"])
            if found:
                break
    out["secs"] = round(time.time() - t0, 3)
    return out


ONLY = None


def _unlisted_self_stores(key, con):
    """Stores to self.<attr> (assignment, element assignment, mutating method call) in the function under contract whose
    attribute name occurs in no `modifies` entry."""
    import ast as _ast
    from pyvc.verify import find_region
    from pyvc.scans import MUTATORS
    finfo = Repo.get().find(key.split("#")[0])
    node = finfo.node if con.region is None else find_region(finfo, con.region)
    nodes = node if isinstance(node, list) else [node]
    listed = " ".join(con.modifies or [])
    out = []

    def self_attr(e):
        return e.attr if isinstance(e, _ast.Attribute) and isinstance(e.value, _ast.Name) and e.value.id == "self" else None
    for root in nodes:
        for n in _ast.walk(root):
            tgts = n.targets if isinstance(n, _ast.Assign) else ([n.target] if isinstance(n, (_ast.AugAssign, _ast.AnnAssign)) else [])
            for t in tgts:
                a = self_attr(t) or (self_attr(t.value) if isinstance(t, _ast.Subscript) else None)
                if a and a not in listed:
                    out.append(f"self.{a} at line {t.lineno}")
            if isinstance(n, _ast.Call) and isinstance(n.func, _ast.Attribute) and n.func.attr in MUTATORS:
                a = self_attr(n.func.value)
                if a and a not in listed:
                    out.append(f"self.{a}.{n.func.attr}() at line {n.lineno}")
    return out


def _task_entry(conn, task):
    try:
        conn.send(worker(task))
    except BaseException as e:  # noqa: B902 -- the parent must always get an answer
        import traceback as _tb
        conn.send({"__crash__": f"{type(e).__name__}: {e}\n{_tb.format_exc(limit=6)}"})
    finally:
        conn.close()


def run_tasks(tasks, jobs):
    """One process per function under contract, at most `jobs` at a time, each under a HARD wall-clock limit: z3 does not
    always honour its timeout or an interrupt (seen: minutes inside one check()), and a native replay runs real code.  A task
    that overruns is killed and its function reported as undecided -- a check can be slow, it must never hang."""
    ctx = mp.get_context("fork")
    pending = list(enumerate(tasks))
    running = {}
    results = [None] * len(tasks)
    while pending or running:
        while pending and len(running) < jobs:
            i, task = pending.pop(0)
            parent, child = ctx.Pipe(duplex=False)
            p = ctx.Process(target=_task_entry, args=(child, task), daemon=True)
            p.start()
            child.close()
            con = REG.contracts[task[0]]
            budget = (con.budget_s or task[1].get("fuc_budget_s", 240))
            hard = budget * 2.5 + 2 * task[1].get("refute_budget_s", 120) + 120
            running[i] = (p, parent, time.time(), hard, task)
        done = []
        for i, (p, parent, t_start, hard, task) in running.items():
            if parent.poll(0.05):
                try:
                    results[i] = parent.recv()
                except EOFError:
                    results[i] = {"__crash__": "worker ended without an answer"}
                p.join(5)
                done.append(i)
            elif not p.is_alive():
                results[i] = {"__crash__": f"worker died (exit code {p.exitcode})"}
                done.append(i)
            elif time.time() - t_start > hard:
                p.kill()
                p.join(5)
                results[i] = {"__timeout__": hard}
                done.append(i)
        for i in done:
            task = running.pop(i)[4]
            r = results[i]
            if "__crash__" in r or "__timeout__" in r:
                key = task[0]
                con = REG.contracts[key]
                qual = key.split("::", 1)[1]
                base = {"key": key, "file": key.split("::")[0], "qualname": qual, "sha256": "", "lines": [0, 0], "paths": 0, "log": [],
                        "refutations": [], "secs": 0.0, "bounded": con.bounded}
                if "__timeout__" in r:
                    base["error"] = None
                    base["obligations"] = [{"name": f"{qual}.budget.hard_time_limit", "kind": "budget", "label": "hard_time_limit", "line": 0, "path": "-",
                                            "status": "unknown", "backend": "-", "secs": 0.0, "model": None, "smt_head": None,
                                            "detail": f"worker killed after {int(r['__timeout__'])} s (a solver call did not honour its timeout)"}]
                else:
                    base["error"] = "engine crash: " + r["__crash__"]
                    base["obligations"] = []
                results[i] = base
    return results


def main(argv=None):
    ap = argparse.ArgumentParser()
    ap.add_argument("prop")
    ap.add_argument("--tier", default=os.environ.get("VERIF_TIER", "quick"))
    ap.add_argument("--replay")
    ap.add_argument("--jobs", type=int, default=int(os.environ.get("VERIF_JOBS", "16")))
    ap.add_argument("--only")
    ap.add_argument("-v", action="store_true")
    a = ap.parse_args(argv)
    global ONLY
    ONLY = a.only
    t0 = time.time()
    seed = int(os.environ.get("VERIF_SEED", "0"))
    load_contracts()
    prop = a.prop
    if a.replay:
        return do_replay(prop, a.replay)
    known = [k for k in load_known() if k.get("property") == prop and k.get("status", "open") == "open"]
    keys = [k for k, c in REG.contracts.items() if prop in c.props and c.verify and (not a.only or a.only in k)]
    assumed = [k for k, c in REG.contracts.items() if not c.verify]
    if not keys and not [r for r in REG.writer_rules + REG.native + REG.scans if r["prop"] == prop]:
        print(f"CHECKER-ERROR no functions under contract for {prop}")
        return 3
    thorough = a.tier == "thorough"
    cfg = {"timeout_ms": 60000 if thorough else 15000, "both": thorough, "cvc5": True, "samples": True,
           "known": known, "prop": prop}
    with mp.get_context("fork").Pool(max(1, a.jobs)) as pool:
        tasks = []
        big = [k for k in keys if REG.contracts[k].split]
        for parts in pool.map(split_tasks_star, [(k, cfg) for k in big], chunksize=1):
            tasks += parts
        tasks += [(k, cfg) for k in keys if not REG.contracts[k].split]
    raw = run_tasks(tasks, max(1, a.jobs))
    by_key: Dict[str, list] = {}
    for r_ in raw:
        by_key.setdefault(r_["key"], []).append(r_)
    results = [merge_results(by_key[k]) for k in keys]
    import subprocess
    for nb in REG.native:
        if nb["prop"] != prop or a.only:
            continue
        t1 = time.time()
        env = dict(os.environ, VERIF_TIER=a.tier)
        if REPO != "/repo":  # dev runs against a scratch copy: the native script must import that copy too
            env["PYTHONPATH"] = REPO + "/src" + (os.pathsep + env["PYTHONPATH"] if env.get("PYTHONPATH") else "")
        pr = subprocess.run([sys.executable, "-W", "ignore", os.path.join(ROOT, nb["script"])], capture_output=True, text=True, cwd=ROOT, env=env)
        try:
            doc = json.loads([l for l in pr.stdout.splitlines() if l.startswith("{")][-1])
        except Exception:
            doc = {"checked": 0, "counterexample": None, "error": (pr.stdout + pr.stderr)[-400:]}
        # a script reports either one verdict or a list of named cases (one obligation each, so that a recorded finding in
        # one case does not hide a new violation in another)
        cases = doc.get("cases") or [{"name": None, "checked": doc.get("checked", 0), "counterexample": doc.get("counterexample")}]
        obs_, refs_ = [], []
        for cs in cases:
            nm = f"bounded.{nb['name']}" + (f".{cs['name']}" if cs.get("name") else "")
            ob = {"name": nm, "kind": "bounded_native", "label": nb["name"], "line": 0, "path": "-",
                  "status": "failed" if cs.get("counterexample") else ("discharged" if cs.get("checked") else "unknown"),
                  "backend": "native enumeration", "secs": round(time.time() - t1, 2), "detail": doc.get("error", ""),
                  "model": cs.get("counterexample"), "smt_head": None, "bounded": nb["bound"], "native_checked": cs.get("checked", 0)}
            obs_.append(ob)
            if cs.get("counterexample"):
                refs_.append({"bound": nb["bound"], "obligation": nm, "kind": "bounded_native", "label": nb["name"], "path": "-",
                              "model": cs["counterexample"], "replay": {"built": True, "reproduced": True,
                                                                        "detail": "found by running the real functions; rerun " + nb["script"]}})
        ran = any(cs.get("checked") for cs in cases)
        results.append({"key": f"bounded::{nb['name']}", "file": nb["script"], "qualname": nb["name"], "sha256": "", "lines": [0, 0],
                        "paths": 0, "error": None if ran else f"native bounded check did not run: {doc.get('error')}",
                        "obligations": obs_, "log": [f"bounded stand-in {nb['name']}: {nb['what']} (bound: {nb['bound']})"],
                        "refutations": refs_, "secs": round(time.time() - t1, 2), "bounded": nb["bound"]})
    for sc in REG.scans:
        if sc["prop"] != prop or a.only:
            continue
        t1 = time.time()
        obs = sc["fn"]()
        results.append({"key": f"scan::{sc['name']}", "file": "src/primaite (whole tree)", "qualname": f"<scan {sc['name']}>", "sha256": "",
                        "lines": [0, 0], "paths": 0, "error": None if obs else "scan produced no obligations", "obligations": obs, "log": [],
                        "refutations": [], "secs": round(time.time() - t1, 2)})
    from pyvc.frames import check_writers
    for rule in REG.writer_rules:
        if rule["prop"] == prop and not a.only:
            obs = check_writers(rule)
            results.append({"key": f"writers::{rule['attr']}", "file": "src/primaite (whole tree)", "qualname": f"<writers of .{rule['attr']}>",
                            "sha256": "", "lines": [0, 0], "paths": 0, "error": None, "obligations": obs, "log": [],
                            "refutations": [], "secs": 0.0})
    for r_ in results:
        for o in r_["obligations"]:
            for kf in known:
                if o["name"].startswith(kf["obligation"]) and o["status"] != "discharged":
                    o["known"] = kf["id"] + ": " + kf["what"]
    return report(prop, a.tier, seed, results, known, assumed, t0, a.v)


def _safe_name(n: str) -> str:
    """File name for a replay file: no path separators and no white space (the VIOLATION line is `replay=<path>`)."""
    return "".join(ch if (ch.isalnum() or ch in "._-@#:+=,[]()") else "_" for ch in n)


def report(prop, tier, seed, results, known, assumed, t0, verbose):
    n_obl = n_dis = 0
    violations, undecided, errors, known_lines = [], [], [], []
    fucs = []
    bounded: Dict[str, dict] = {}
    samples = []
    trusted = set()
    solver_secs = 0.0
    backends: Dict[str, int] = {}
    os.makedirs(os.path.join(ROOT, "replays", prop), exist_ok=True)
    for r in results:
        by_name: Dict[str, Dict[str, int]] = {}
        for o in r["obligations"]:
            solver_secs += o["secs"]
            if o.get("known"):
                continue
            if o.get("bounded"):
                b = bounded.setdefault(r["qualname"], {"function": r["qualname"], "file": r["file"], "bound": o["bounded"],
                                                       "checked": 0, "held": 0, "undecided": 0,
                                                       "rule": "every list/dict/set has at most `bound` elements, loops unrolled `bound` times, quantifiers expanded"})
                if o["kind"] == "bounded_native":
                    b["rule"] = (r["log"][0] if r["log"] else "native enumeration on the real functions")
                b["checked"] += o.get("native_checked", 1)
                b["held"] += o.get("native_checked", 1) if o["status"] == "discharged" else 0
                b["undecided"] += o["status"] == "unknown"
                continue
            n_obl += 1
            d = by_name.setdefault(o["name"], {})
            d[o["status"]] = d.get(o["status"], 0) + 1
            if o["status"] == "discharged":
                n_dis += 1
                backends[o["backend"]] = backends.get(o["backend"], 0) + 1
        fucs.append({"function": r["qualname"], "file": r["file"], "lines": r["lines"], "sha256": r["sha256"], "paths": r["paths"],
                     "obligations": sum(sum(d.values()) for d in by_name.values()),
                     "named_obligations": len(by_name), "secs": r["secs"]})
        for l in r["log"]:
            trusted.add(l)
        con_ = REG.contracts.get(r["key"])
        if not r["obligations"] and not r["error"] and con_ is not None and (con_.ensures or con_.decreases):
            # vacuity guard per function: a contract that generates no obligation proves nothing
            r["error"] = "contract generated no obligation (vacuous)"
        if r["error"]:
            rep_ = [x for x in r["refutations"] if "obligation" in x and x["replay"].get("reproduced")]
            done_ = set()
            for x in rep_:
                if x["obligation"] in done_:
                    continue
                done_.add(x["obligation"])
                fn = os.path.join(ROOT, "replays", prop, _safe_name(x["obligation"] + ".json"))
                json.dump({"property": prop, "function": r["key"], "obligation": x["obligation"], "status": "refuted", "verifier_output": [],
                           "refutation_search": [x], "failing_input": x["model"], "native_replay": x["replay"],
                           "note": "the proof run stopped (" + r["error"].splitlines()[0][:160] + "); found by the bounded search, which unrolls loops"},
                          open(fn, "w"), indent=1, default=str)
                violations.append((x["obligation"], fn, True))
            if not rep_:
                errors.append((r["key"], r["error"]))
            continue
        for o in r["obligations"]:
            if o["status"] == "discharged" and len(samples) < 6 and o["backend"] != "simplifier" and o.get("smt_head"):
                samples.append({"obligation": o["name"], "path": o["path"], "backend": o["backend"], "goal_head": o["smt_head"]})
        # known findings: obligations marked known=<id>
        for o in r["obligations"]:
            if o.get("known") and o["status"] != "discharged":
                line = f"KNOWN-FINDING: property={prop} {o['known']} [{o['name']}]"
                if line not in known_lines:
                    known_lines.append(line)
        failing = {}
        for o in r["obligations"]:
            if o["status"] != "discharged" and not o.get("known"):
                if o.get("bounded") and o["status"] == "unknown":
                    continue  # a bounded stand-in that the solver could not decide: reported in evidence, claims nothing
                failing.setdefault(o["name"], []).append(o)
        if not failing:
            continue
        refs = [x for x in r["refutations"] if "obligation" in x]
        reproduced = [x for x in refs if x["replay"].get("reproduced")]
        # a natively reproduced failure of one of the function's own clauses is a violation whichever proof obligation it was
        # that could not be discharged (typically: a loop invariant fails in the proof, and once loops are unrolled it is the
        # postcondition that has the replayable counter-model)
        extra_reproduced = [x for x in reproduced if x["obligation"] not in failing]
        seen_extra = set()
        for x in extra_reproduced:
            if x["obligation"] in seen_extra:
                continue
            seen_extra.add(x["obligation"])
            fn = os.path.join(ROOT, "replays", prop, _safe_name(x["obligation"] + ".json"))
            json.dump({"property": prop, "function": r["key"], "obligation": x["obligation"], "status": "refuted",
                       "verifier_output": [], "refutation_search": [x], "failing_input": x["model"], "native_replay": x["replay"],
                       "note": "found by the bounded refutation search after " + ", ".join(sorted(failing)[:3]) + " could not be discharged"},
                      open(fn, "w"), indent=1, default=str)
            violations.append((x["obligation"], fn, True))
        # the only undischarged obligations are loop invariants the solver could not decide (no counterpart once loops are unrolled), and
        # the bounded search -- the unrolled program against the same callee contracts -- has a counter-model of one of the function's
        # own postconditions that the native replay can neither show nor contradict (ghost events have no native counterpart): that
        # postcondition is reported as the violation, without an input
        only_loops = all(o["kind"] in ("loopinv", "budget") and o["status"] == "unknown" for obs_ in failing.values() for o in obs_)
        inconclusive_posts = [x for x in refs if x.get("kind") == "post" and x["obligation"] not in failing and x["replay"].get("reproduced") is None
                              and x.get("model")]
        if only_loops and not extra_reproduced and inconclusive_posts:
            x = inconclusive_posts[0]
            fn = os.path.join(ROOT, "replays", prop, _safe_name(x["obligation"] + ".json"))
            json.dump({"property": prop, "function": r["key"], "obligation": x["obligation"], "status": "refuted",
                       "verifier_output": [], "refutation_search": inconclusive_posts[:4],
                       "note": "counter-model of the unrolled function (bounded refutation search) after " + ", ".join(sorted(failing)[:3])
                               + " could not be decided; the native replay is inconclusive: " + str(x["replay"].get("detail"))},
                      open(fn, "w"), indent=1, default=str)
            violations.append((x["obligation"], fn, False))
            continue
        for name, obs in failing.items():
            if extra_reproduced and all(o["kind"] in ("loopinv", "budget") for o in obs) and not any(x["obligation"] == name for x in refs):
                continue  # explained by the reproduced failure above
            if name.endswith("frame.no_allocation_declared"):
                # the function now allocates although its contract says it does not: the contract has to be updated
                # before anything can be concluded -- not a statement about the property
                undecided.append((name, "function allocates but its contract does not declare `allocates` (contract out of date)"))
                continue
            sat_proof = any(o["status"] == "failed" for o in obs)
            mine = [x for x in refs if x["obligation"] == name]
            rep = next((x for x in reproduced if x["obligation"] == name), None)
            fn = os.path.join(ROOT, "replays", prop, _safe_name(name + ".json"))
            doc = {"property": prop, "function": r["key"], "obligation": name,
                   "status": "refuted" if (sat_proof or mine) else "unknown",
                   "verifier_output": [{k: o[k] for k in ("path", "status", "backend", "detail", "line", "model")} for o in obs[:3]],
                   "refutation_search": r["refutations"][:8]}
            if rep is not None:
                doc["failing_input"] = rep["model"]
                doc["native_replay"] = rep["replay"]
                json.dump(doc, open(fn, "w"), indent=1, default=str)
                violations.append((name, fn, True))
            elif sat_proof or mine:
                # a counter-model exists (full VC, or the small-scope grounded VC); it counts unless the native
                # replay positively showed the real code behaving on that input
                denied = [x for x in mine if x["replay"].get("reproduced") is False]
                if mine and len(denied) == len(mine) and not sat_proof:
                    undecided.append((name, "counter-model of the grounded VC does not reproduce natively"))
                elif denied and sat_proof and len(denied) == len(mine):
                    # a definite counter-model of the full VC that the real function does not show from that entry state.
                    # If the function calls callees whose behaviour is only ASSUMED (assumed or dispatch contracts: dynamic
                    # receivers, the rest of the network), the replay -- which runs the real callees on blank objects -- cannot
                    # realise what the model lets them do (e.g. re-entrant sends), so the counter-model stands and is reported
                    # without an input; if every callee contract involved is itself proved, the disagreement means a contract
                    # is too weak and nothing is concluded.
                    assumed_used = [l for l in r["log"] if "dispatch contract" in l or
                                    (l.startswith("contract ") and l.split(" ")[1] in REG.contracts and not REG.contracts[l.split(" ")[1]].verify)]
                    if assumed_used:
                        doc["note"] = ("counter-model of the full verification condition; the native replay cannot realise the behaviour of "
                                       "assumed callees: " + "; ".join(assumed_used[:3]))
                        json.dump(doc, open(fn, "w"), indent=1, default=str)
                        violations.append((name, fn, False))
                    else:
                        undecided.append((name, "counter-model does not reproduce natively (weak callee contract or invariant?)"))
                else:
                    json.dump(doc, open(fn, "w"), indent=1, default=str)
                    violations.append((name, fn, False))
            else:
                undecided.append((name, obs[0]["detail"]))
    wall = round(time.time() - t0, 2)
    for l in known_lines:
        print(l)
    for name, fn, has_input in violations:
        print(f"  refuted: {name}" + ("" if has_input else "  (no replayable input)"))
    for k, e in errors:
        print(f"CHECKER-ERROR {k}: {e.splitlines()[0]}")
    for name, why in undecided:
        print(f"UNDECIDED obligation={name} {why}")
    evid = {
        "property_id": prop, "tier": tier, "seed": seed, "level": "proof",
        "coverage": {
            "obligations": n_obl, "discharged": n_dis,
            "checker_cmd": f"./check {prop} --tier {tier}",
            "trusted_base": sorted(trusted) + ["pyvc symbolic semantics of the Python subset (DESIGN.md 1.3)",
                                               "z3 4.x/5.x and cvc5 1.0.3 soundness",
                                               "A1 ints mathematical; A2 floats are reals; strings opaque; A7 pydantic models are plain records and field annotations hold"],
            "functions_under_contract": fucs,
            # assumed (unverified) contracts that were actually applied at some call site of the functions above, with the
            # reason each is assumed; dispatch contracts (dynamic dispatch / call sites outside the class) are listed too
            "assumed_contracts": [{"contract": k, "why": REG.contracts[k].note} for k in assumed
                                  if any(l.startswith("contract " + k) for l in trusted)],
            "dispatch_contracts_applied": sorted(l for l in trusted if "dispatch contract" in l),
            "bounded": list(bounded.values()),
            "back_ends": backends, "solver_secs": round(solver_secs, 2),
            "samples": samples,
            "undecided": [u[0] for u in undecided], "checker_errors": [e[0] for e in errors],
            "known_findings": known_lines,
            "explanation": "every obligation is a verification condition generated from the real function ASTs in /repo's working tree against the sidecar contracts in /verif/contracts; discharged = negation unsat",
        },
        "assumptions": sorted(trusted),
        "wall_s": wall,
        "violations": len(violations),
    }
    edir = os.environ.get("PYVC_EVIDENCE_DIR") or os.path.join(ROOT, "evidence")  # dev tools redirect it for seeded runs
    if ONLY and not os.environ.get("PYVC_EVIDENCE_DIR"):
        edir = os.path.join(ROOT, "scratch", "evidence_partial")  # a partial run (--only) never replaces the property's evidence
    os.makedirs(edir, exist_ok=True)
    json.dump(evid, open(os.path.join(edir, f"{prop}.json"), "w"), indent=1, default=str)
    print(f"{prop}: {len(fucs)} functions under contract, {n_obl} obligations, {n_dis} discharged, "
          f"{len(violations)} refuted, {len(undecided)} undecided, {len(errors)} errors, {wall}s")
    if violations:
        name, fn, has_input = violations[0]
        print(f"VIOLATION property={prop} replay={fn}" + ("" if has_input else " no-failing-input-found"))
        return 1
    if errors:
        return 3
    if undecided:
        return 2
    return 0


def do_replay(prop, path):
    from pyvc import replay as rp
    doc = json.load(open(path))
    print(f"obligation {doc['obligation']} of {doc['function']}")
    if "failing_input" not in doc:
        print("no failing input recorded (no-failing-input-found); verifier output:")
        print(json.dumps(doc.get("verifier_output"), indent=1)[:3000])
        return 1
    ob = next((x for x in doc["refutation_search"] if x.get("obligation") == doc["obligation"]), doc["refutation_search"][0])
    r = rp.replay(doc["function"], doc["failing_input"], ob)
    print(json.dumps(r, indent=1, default=str))
    return 1 if r.get("reproduced") else 0


if __name__ == "__main__":
    sys.exit(main())
