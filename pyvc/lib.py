"""Builtins, container methods and library models (= assumed contracts on dependencies; each use is logged)."""
from __future__ import annotations

import ast
from typing import Any

import z3

from . import smt
from . import types as T
from .interp import (DICT_CID, LIST_CID, NOC, SET_CID, TUPLE_CID, Frame, Interp, PathEnd, PBound, PClass,
                     PContainerMethod, PExt, PFunc, PIter, PLog, PMod, PTuple, Refuse, SV, const, enum_member_terms)
from .smt import Val

F_str2int = z3.Function("str2int", smt.I, smt.I)
F_str_of = z3.Function("str_of", Val, smt.I)
F_lower = z3.Function("str_lower", smt.I, smt.I)
F_ip_of_str = z3.Function("ip_of_str", smt.I, smt.I)
F_plen = z3.Function("plen", smt.I, smt.I)  # prefix length of a netmask (uninterpreted, in [0,32])
# in_net(x, a, m): x lies in the network IPv4Network(f"{a}/{m}", strict=False), i.e. (x & m) == (a & m) -- kept
# uninterpreted: nothing proved here depends on the bit-level definition
F_in_net = z3.Function("in_net", smt.I, smt.I, smt.I, smt.B)


MASKS = [(2**32 - 1) ^ (2**(32 - p) - 1) for p in range(33)]  # netmask of prefix length p


def valid_mask_term(m):
    return z3.Or(*[m == z3.IntVal(x) for x in MASKS])


def in_net_term(st, x, a, m):
    """in_net(x,a,m); in refutation mode its bit-level definition is revealed so that models replay natively."""
    t = F_in_net(x, a, m)
    if st.cfg.get("ground"):
        # for a valid netmask of prefix length p:  (x & m) == (a & m)  <=>  x div 2^(32-p) == a div 2^(32-p)
        d = z3.BoolVal(False)
        for p_, mk in enumerate(MASKS):
            c = 2 ** (32 - p_)
            d = z3.If(m == z3.IntVal(mk), x / c == a / c, d)
        st.assume(z3.Implies(valid_mask_term(m), t == d))
    return t


def plen_term(st, m):
    t = F_plen(m)
    if st.cfg.get("ground"):
        d = z3.IntVal(0)
        for p, x in enumerate(MASKS):
            d = z3.If(m == z3.IntVal(x), z3.IntVal(p), d)
        st.assume(z3.Implies(valid_mask_term(m), t == d))
    return t


def isinstance_pred(I: Interp, v, cls):
    st = I.st
    if isinstance(cls, PTuple):
        return z3.Or(*[isinstance_pred(I, v, c) for c in cls.items])
    if isinstance(v, PTuple):
        return z3.BoolVal(isinstance(cls, PExt) and cls.name == "builtins.tuple")
    if isinstance(v, (PFunc, PBound)):
        return z3.BoolVal(False)
    if not isinstance(v, SV):
        raise Refuse(f"isinstance on {type(v).__name__}")
    t = v.t
    if isinstance(cls, PExt):
        n = cls.name.split(".")[-1]
        r = smt.rid(t)
        cid = z3.Select(st.arr("cls"), r)
        if n == "int":
            return z3.Or(smt.is_int(t), smt.is_bool(t))
        if n == "bool":
            return smt.is_bool(t)
        if n == "str":
            return smt.is_str(t)
        if n == "float":
            return smt.is_real(t)
        if n == "IPv4Address":
            return smt.is_ip(t)
        if n in ("list", "List"):
            return z3.And(smt.is_ref(t), cid == LIST_CID)
        if n in ("dict", "Dict"):
            return z3.And(smt.is_ref(t), cid == DICT_CID)
        if n == "set":
            return z3.And(smt.is_ref(t), cid == SET_CID)
        if n == "tuple":
            return z3.And(smt.is_ref(t), cid == TUPLE_CID)
        if n == "Enum":
            return z3.BoolVal(v.ty.k == "enum")
        if n == "Sequence":  # typing/collections.abc Sequence: list, tuple, str
            return z3.Or(smt.is_str(t), z3.And(smt.is_ref(t), z3.Or(cid == LIST_CID, cid == TUPLE_CID)))
        if n in ("Mapping", "MutableMapping"):
            return z3.And(smt.is_ref(t), cid == DICT_CID)
        raise Refuse(f"isinstance(_, {cls.name})")
    if isinstance(cls, PClass):
        ci = cls.ci
        if ci.is_enum:
            ms = enum_member_terms(ci)
            return z3.Or(*[t == m for m in ms.values()])
        r = smt.rid(t)
        return z3.And(smt.is_ref(t), r > 0, st.subclass_pred(z3.Select(st.arr("cls"), r), ci))
    raise Refuse("isinstance second argument")


def to_int(I: Interp, v: SV, node=None) -> SV:
    st = I.st
    k = T.strip_opt(v.ty).k
    if k == "int":
        return SV(v.t, T.INT, v.c)
    if k == "enum" and v.ty.a[0].is_int_enum:
        return SV(v.t, T.INT)
    if k == "bool":
        return SV(smt.mk_int(z3.If(smt.bval(v.t), 1, 0)), T.INT)
    if k == "ip":
        return SV(smt.mk_int(smt.ipval(v.t)), T.INT)
    if k == "str":
        st.log.append("int(str) modelled as uninterpreted str2int (ValueError not modelled)")
        return SV(smt.mk_int(F_str2int(smt.sval(v.t))), T.INT)
    if k == "float":
        # int(x) truncates toward zero (A2: the float is a real; overflow/inf/nan not modelled)
        x = smt.rval(v.t)
        return SV(smt.mk_int(z3.If(x >= 0, z3.ToInt(x), -z3.ToInt(-x))), T.INT)
    if k == "any":
        x = z3.If(smt.is_int(v.t), smt.ival(v.t), z3.If(smt.is_bool(v.t), z3.If(smt.bval(v.t), 1, 0),
                  z3.If(smt.is_ip(v.t), smt.ipval(v.t), F_str2int(smt.sval(v.t)))))
        st.log.append("int(any) modelled by cases; str via uninterpreted str2int")
        return SV(smt.mk_int(x), T.INT)
    raise Refuse(f"int() of {v.ty}")


def fresh_container(I, ty):
    """A container allocated now whose contents nothing is known about."""
    st = I.st
    if ty.k == "dict":
        nr = st.new_ref(DICT_CID)
        st.heap["dhas"] = z3.Store(st.arr("dhas"), nr, st.fresh("dc_has", smt.ArrVB))
        st.heap["dget"] = z3.Store(st.arr("dget"), nr, st.fresh("dc_get", smt.ArrVV))
        n = st.fresh("dc_sz", smt.I)
        st.assume(n >= 0)
        st.heap["dsz"] = z3.Store(st.arr("dsz"), nr, n)
        st.heap["dkeys"] = z3.Store(st.arr("dkeys"), nr, st.fresh("dc_keys", smt.ArrIV))
    else:
        nr = st.new_ref(LIST_CID)
        n = st.fresh("lc_len", smt.I)
        st.assume(n >= 0)
        st.heap["llen"] = z3.Store(st.arr("llen"), nr, n)
        st.heap["lel"] = z3.Store(st.arr("lel"), nr, st.fresh("lc_el", smt.ArrIV))
    return SV(smt.mk_ref(nr), ty)


def call_ext(I: Interp, name: str, args, kwargs, fr: Frame, node=None):
    st = I.st
    line = getattr(node, "lineno", 0)
    short = name.split(".")[-1]
    if name.startswith("builtins."):
        return call_builtin(I, short, args, kwargs, fr, node)
    if name.startswith("exc."):
        return PExt(name)
    if short == "IPv4Address" and "ipaddress" in name or name == "ipaddress.IPv4Address":
        v = I.to_sv(args[0])
        k = T.strip_opt(v.ty).k
        if k == "ip":
            return v
        if k == "int":
            st.oblige("safety", "ip_range", z3.And(smt.ival(v.t) >= 0, smt.ival(v.t) < 2**32), line)
            return SV(smt.mk_ip(smt.ival(v.t)), T.IP)
        st.log.append("IPv4Address(str) modelled as uninterpreted ip_of_str (AddressValueError not modelled)")
        x = z3.If(smt.is_ip(v.t), smt.ipval(v.t), F_ip_of_str(smt.sval(v.t)))
        st.assume(z3.And(x >= 0, x < 2**32))
        return SV(smt.mk_ip(x), T.IP)
    if short == "IPv4Network":
        return model_ipv4network(I, args, kwargs, node)
    if short in ("uuid4",):
        st.log.append("uuid4() = fresh opaque value")
        return st.fresh_val("uuid", T.STR)
    if name == "copy.copy" and args and isinstance(args[0], SV) and T.strip_opt(args[0].ty).k in ("dict", "list"):
        # shallow copy of a container = its own .copy()
        src = args[0]
        ty = T.strip_opt(src.ty)
        r = smt.rid(src.t)
        if ty.k == "dict":
            nr = st.new_ref(DICT_CID)
            for a in ("dhas", "dget", "dsz", "dkeys"):
                st.heap[a] = z3.Store(st.arr(a), nr, z3.Select(st.arr(a), r))
        else:
            nr = st.new_ref(LIST_CID)
            st.heap["llen"] = z3.Store(st.arr("llen"), nr, z3.Select(st.arr("llen"), r))
            st.heap["lel"] = z3.Store(st.arr("lel"), nr, z3.Select(st.arr("lel"), r))
        return SV(smt.mk_ref(nr), ty)
    if name.startswith("gymnasium.spaces.") or name.startswith("gymnasium.spaces.spaces."):
        from .interp import PSpace
        if short == "Discrete":
            n = I.to_sv(args[0] if args else kwargs["n"])
            if "start" in kwargs or len(args) > 1:
                raise Refuse("spaces.Discrete with a start offset")
            st.log.append("gymnasium.spaces.Discrete(n).contains(x)  <=>  x is an int and 0 <= x < n   (assumed library model)")
            return PSpace("discrete", n=n)
        if short == "Dict":
            src = args[0] if args else None
            st.log.append("gymnasium.spaces.Dict(m).contains(d)  <=>  d is a dict with exactly m's keys and every d[k] in m[k]   (assumed library model)")
            if src is None:
                return PSpace("dict", items={})
            if isinstance(src, PSpace) and src.kind == "raw":
                return PSpace("dict", items=dict(src.items))
            if isinstance(src, PSpace) and src.kind == "family":
                return src  # spaces.Dict({k(i): space(i) for i in ...})
            if isinstance(src, SV) and T.strip_opt(src.ty).k == "dict":
                n = smt.simp(z3.Select(st.arr("dsz"), smt.rid(src.t)))
                if z3.is_int_value(n) and n.as_long() == 0:
                    return PSpace("dict", items={})
            raise Refuse("spaces.Dict of a computed mapping")
        raise Refuse(f"gymnasium space {short}")
    if name in ("urllib.parse.urlparse",):
        st.log.append("urllib.parse.urlparse(text): an object whose hostname/port are uninterpreted functions of the text; None text has neither (ValueError for malformed ports not modelled)")
        src = I.to_sv(args[0])
        r = st.new_ref(0)
        return SV(smt.mk_ref(r), T.EXT("ParseResult"), ("url", src.t))
    if short == "deepcopy" and args and isinstance(args[0], SV) and T.strip_opt(args[0].ty).k in ("dict", "list"):
        st.log.append("copy.deepcopy(container): a newly allocated container; its contents are left unconstrained (over-approximation)")
        return fresh_container(I, T.strip_opt(args[0].ty))
    if name == "yaml.safe_load":
        st.log.append("yaml.safe_load(text): a newly allocated mapping with unconstrained contents (documents that are not mappings are not modelled)")
        return fresh_container(I, T.DICT(T.STR, T.ANY))
    if short == "deepcopy" or name == "copy.copy":
        raise Refuse("copy/deepcopy")
    if name in ("random.randint",):
        a, _ = I.num(args[0])
        b, _ = I.num(args[1])
        st.oblige("safety", "randint_range", a <= b, line)
        r = st.fresh("randint", smt.I)
        st.assume(z3.And(a <= r, r <= b))
        st.log.append("random.randint(a,b): requires a<=b ensures a<=r<=b")
        return SV(smt.mk_int(r), T.INT)
    if name in ("random.random",):
        r = st.fresh("random", smt.R)
        st.assume(z3.And(r >= 0, r < 1))
        return SV(smt.mk_real(r), T.FLOAT)
    if name in ("random.choice",):
        l = args[0]
        if not isinstance(l, SV) or T.strip_opt(l.ty).k != "list":
            raise Refuse("random.choice of non-list")
        n = I.list_len(l)
        st.oblige("safety", "choice_nonempty", n > 0, line)
        j = st.fresh("choice", smt.I)
        st.assume(z3.And(j >= 0, j < n))
        v = I.list_get(l, j)
        st.assume_wt(v)
        st.log.append("random.choice(xs): requires len>0 ensures result in xs")
        return v
    if name.startswith("datetime.") or name.startswith("time."):
        st.log.append(f"{name}() = fresh opaque value")
        return st.fresh_val("time", T.EXT("datetime"))
    if short in ("Field", "PrivateAttr"):
        return st.fresh_val("field")
    if name.startswith("warnings.") or name.startswith("torch.") or name.startswith("th."):
        return const(None)
    if name in ("random.seed", "numpy.random.seed", "np.random.seed"):
        # seeding a global generator: recorded in the ghost event log so that contracts can demand it
        from .calls import append_event
        append_event(st, "seed_python" if name == "random.seed" else "seed_numpy", [I.to_sv(args[0]).t if args else smt.NONE])
        return const(None)
    if name in ("numpy.random.default_rng", "np.random.default_rng"):
        r = st.new_ref(-22)
        st.log.append("numpy.random.default_rng(): opaque generator object")
        return SV(smt.mk_ref(r), T.EXT("rng"))
    if name in ("numpy.asarray", "numpy.array", "np.asarray", "np.array"):
        st.log.append("numpy.asarray(list, dtype=...) modelled as the same sequence of values")
        return args[0]
    if short == "TypeAdapter" or name.startswith("TypeAdapter"):
        raise Refuse("TypeAdapter")
    if short in ("Discrete",) and "spaces" in name:
        n = I.to_sv(args[0])
        r = st.new_ref(-20)
        st.setf(r, "space:n", n.t)
        return SV(smt.mk_ref(r), T.EXT("Discrete"), ("Discrete", n))
    raise Refuse(f"call of external {name} (line {line})")


def model_ipv4network(I: Interp, args, kwargs, node):
    """IPv4Network(f"{ip}/{mask}", strict=False) -- the argument string is opaque, so the model takes the two values
    from the f-string's AST when the call site has that shape; otherwise an unconstrained network."""
    st = I.st
    a0 = args[0] if args else None
    if isinstance(a0, SV) and isinstance(a0.c, tuple) and a0.c[0] == "fstr" and len(a0.c[1]) == 3 and a0.c[1][1] == "/":
        ip, mask = a0.c[1][0], a0.c[1][2]
        if isinstance(ip, SV) and isinstance(mask, SV) and T.strip_opt(ip.ty).k == "ip" and T.strip_opt(mask.ty).k == "ip":
            return net_from_ip_mask(I, ip, mask)
    r = st.new_ref(-21)
    net = SV(smt.mk_ref(r), T.EXT("IPv4Network"))
    st.heap["f:net:address"] = z3.Store(st.arr("f:net:address"), r, st.fresh_val("net_addr", T.IP).t)
    st.heap["f:net:netmask"] = z3.Store(st.arr("f:net:netmask"), r, st.fresh_val("net_mask", T.IP).t)
    p = st.fresh("net_plen", smt.I)
    st.assume(z3.And(p >= 0, p <= 32))
    st.heap["f:net:prefixlen"] = z3.Store(st.arr("f:net:prefixlen"), r, smt.mk_int(p))
    st.log.append("IPv4Network(<opaque string>) = unconstrained network")
    return net


def net_from_ip_mask(I: Interp, ip: SV, mask: SV) -> SV:
    """Library model: IPv4Network(f"{ip}/{mask}", strict=False) == (ip & mask, mask); prefixlen = plen(mask)."""
    st = I.st
    r = st.new_ref(-21)
    a, m = smt.ipval(ip.t), smt.ipval(mask.t)
    st.heap["f:net:address"] = z3.Store(st.arr("f:net:address"), r, ip.t)
    st.heap["f:net:netmask"] = z3.Store(st.arr("f:net:netmask"), r, smt.mk_ip(m))
    st.heap["f:net:prefixlen"] = z3.Store(st.arr("f:net:prefixlen"), r, smt.mk_int(plen_term(st, m)))
    st.heap["f:net:exact"] = z3.Store(st.arr("f:net:exact"), r, smt.mk_bool(True))
    st.assume(z3.And(F_plen(m) >= 0, F_plen(m) <= 32))
    st.log.append("IPv4Network(f'{ip}/{mask}', strict=False) modelled as (ip&mask, mask, plen(mask)); `x in net` as uninterpreted in_net(x, ip, mask)")
    return SV(smt.mk_ref(r), T.EXT("IPv4Network"))


def call_builtin(I: Interp, n: str, args, kwargs, fr: Frame, node=None):
    st = I.st
    line = getattr(node, "lineno", 0)
    if n == "len":
        v = args[0]
        if isinstance(v, PTuple):
            return const(len(v.items))
        if isinstance(v, PIter) and v.kind in ("keys", "values", "items"):
            v = v.a[0]
        if not isinstance(v, SV):
            raise Refuse(f"len of {type(v).__name__}")
        k = T.strip_opt(v.ty).k
        if v.ty.k == "opt":
            st.oblige("safety", "len_of_none", z3.Not(smt.is_none(v.t)), line)
        if k in ("list", "tuple"):
            return SV(smt.mk_int(I.list_len(v)), T.INT)
        if k in ("dict", "set"):
            return SV(smt.mk_int(smt.simp(z3.Select(st.arr("dsz"), smt.rid(v.t)))), T.INT)
        if k == "str":
            x = st.fresh("strlen", smt.I)
            st.assume(x >= 0)
            return SV(smt.mk_int(x), T.INT)
        if k == "any":
            r = smt.rid(v.t)
            cid = z3.Select(st.arr("cls"), r)
            return SV(smt.mk_int(z3.If(z3.Or(cid == LIST_CID, cid == TUPLE_CID), z3.Select(st.arr("llen"), r), z3.Select(st.arr("dsz"), r))), T.INT)
        raise Refuse(f"len of {v.ty}")
    if n == "isinstance":
        return I.as_bool_sv(isinstance_pred(I, args[0], args[1]))
    if n == "int":
        if not args:
            return const(0)
        return to_int(I, I.to_sv(args[0]), node)
    if n == "bool":
        return I.as_bool_sv(I.truthy(args[0])) if args else const(False)
    if n == "float":
        v = I.to_sv(args[0])
        if v.c is not NOC and isinstance(v.c, str):
            if v.c in ("inf", "-inf", "nan"):
                st.log.append(f'float("{v.c}") = unconstrained real (A2)')
                return st.fresh_val("inf", T.FLOAT)
        x, isr = I.num(v)
        return SV(smt.mk_real(x if isr else z3.ToReal(x)), T.FLOAT)
    if n == "str":
        if not args:
            return const("")
        v = I.to_sv(args[0])
        if T.strip_opt(v.ty).k == "str" and v.ty.k != "opt":
            return v
        if v.c is not NOC and isinstance(v.c, (int, str)):
            return const(str(v.c))
        x = F_str_of(v.t)
        st.assume(x >= 0)
        return SV(smt.mk_str(x), T.STR)
    if n in ("min", "max"):
        vals = list(args)
        if len(vals) == 1:
            v = vals[0]
            if isinstance(v, PTuple):
                vals = v.items
            elif isinstance(v, SV) and T.strip_opt(v.ty).k == "list" and z3.is_int_value(I.list_len(v)):
                vals = [I.list_get(v, z3.IntVal(j)) for j in range(I.list_len(v).as_long())]
                if not vals:
                    st.oblige("safety", "min_max_empty", z3.BoolVal(False), line)
                    raise PathEnd()
            elif isinstance(v, SV) and T.strip_opt(v.ty).k == "list":
                # max/min of a symbolic list: a member that bounds every member
                ln = I.list_len(v)
                I.safety("ValueError", "min_max_empty", ln > 0, line)
                ety = I.list_elty(v)
                isr = ety.k == "float"
                res = st.fresh(n, smt.R if isr else smt.I)
                w = st.fresh(n + "_at", smt.I)
                el = lambda idx: (I.num(SV(z3.Select(z3.Select(st.arr("lel"), smt.rid(v.t)), idx), ety if ety.k in ("int", "float", "bool") else T.INT))[0])  # noqa: E731
                st.assume(z3.And(w >= 0, w < ln, el(w) == res))
                K = st.cfg.get("ground")
                if K:
                    st.assume(ln <= K)
                    for j in range(K):
                        st.assume(z3.Implies(j < ln, (el(z3.IntVal(j)) >= res) if n == "min" else (el(z3.IntVal(j)) <= res)))
                else:
                    j = z3.Int(f"j!{n}{st.n_fresh}")
                    st.n_fresh += 1
                    st.assume(z3.ForAll([j], z3.Implies(z3.And(j >= 0, j < ln), (el(j) >= res) if n == "min" else (el(j) <= res))))
                return SV(smt.mk_real(res) if isr else smt.mk_int(res), T.FLOAT if isr else T.INT)
            else:
                raise Refuse(f"{n}() of symbolic collection")
        if "default" in kwargs or "key" in kwargs:
            raise Refuse(f"{n}() with key/default")
        nums = [I.num(v) for v in vals]
        isr = any(r for _, r in nums)
        xs = [(x if r else z3.ToReal(x)) if isr else x for x, r in nums]
        res = xs[0]
        for x in xs[1:]:
            res = z3.If(x < res, x, res) if n == "min" else z3.If(x > res, x, res)
        return SV(smt.mk_real(res) if isr else smt.mk_int(res), T.FLOAT if isr else T.INT)
    if n == "abs":
        x, isr = I.num(args[0])
        r = z3.If(x < 0, -x, x)
        return SV(smt.mk_real(r) if isr else smt.mk_int(r), T.FLOAT if isr else T.INT)
    if n == "round":
        x, isr = I.num(args[0])
        if not isr:
            return SV(smt.mk_int(x), T.INT)
        if len(args) > 1 or kwargs:
            raise Refuse("round() with a number of digits")
        # round(x) on a real: nearest integer, ties to the even one
        fl = z3.ToInt(x + z3.RealVal("1/2"))
        tie = z3.ToReal(fl) == x + z3.RealVal("1/2")
        return SV(smt.mk_int(z3.If(z3.And(tie, fl % 2 != 0), fl - 1, fl)), T.INT)
    if n == "print":
        return const(None)
    if n in ("any", "all"):
        from .comp import eval_any_all
        return eval_any_all(I, n, args[0], fr, node)
    if n == "sum":
        from .comp import eval_sum
        return eval_sum(I, args, fr, node)
    if n == "range":
        return PIter("range", *args)
    if n == "enumerate":
        return PIter("enumerate", args[0], kwargs.get("start", args[1] if len(args) > 1 else const(0)))
    if n == "zip":
        return PIter("zip", *args)
    if n == "sorted":
        return PIter("sorted", args[0], kwargs)
    if n == "reversed":
        return PIter("reversed", args[0])
    if n in ("list", "tuple", "set", "dict", "frozenset"):
        from .comp import build_collection
        return build_collection(I, n, args, kwargs, fr, node)
    if n == "getattr":
        name = args[1]
        if not (isinstance(name, SV) and isinstance(name.c, str)):
            raise Refuse("getattr with symbolic name")
        return I.getattr(args[0], name.c, fr, node)
    if n == "hasattr":
        name = args[1]
        v = args[0]
        if isinstance(name, SV) and isinstance(name.c, str) and isinstance(v, SV) and T.strip_opt(v.ty).k == "obj":
            ci = T.strip_opt(v.ty).a[0]
            if ci.find_method(name.c) or ci.find_field(name.c):
                return const(True)
        raise Refuse("hasattr")
    if n in ("id", "hash"):
        st.log.append(f"{n}() = fresh opaque integer")
        return st.fresh_val(n, T.INT)
    if n == "type":
        raise Refuse("type()")
    if n == "callable":
        return const(isinstance(args[0], (PFunc, PBound)) or (isinstance(args[0], SV) and args[0].ty.k == "callable"))
    if n == "repr":
        return st.fresh_val("repr", T.STR)
    if n == "next":
        from .comp import eval_next
        return eval_next(I, args[0], args[1] if len(args) > 1 else None, fr, node)
    if n == "iter":
        raise Refuse("iter()")
    if n == "super":
        from .interp import PSuper
        return PSuper(fr.cls, fr.selfv)
    if n in ("Exception", "ValueError", "KeyError", "IndexError", "RuntimeError", "TypeError", "AttributeError",
             "NotImplementedError", "RuntimeWarning"):
        return PExt("exc." + n)
    raise Refuse(f"builtin {n}")


# ------------------------------------------------------------------------------------------------- container methods
def call_container_method(I: Interp, recv: SV, name: str, args, kwargs, fr: Frame, node=None):
    st = I.st
    line = getattr(node, "lineno", 0)
    ty = T.strip_opt(recv.ty)
    k = ty.k
    if recv.ty.k == "opt":
        st.oblige("safety", f"none_deref.{name}", z3.Not(smt.is_none(recv.t)), line)
    r = smt.rid(recv.t)
    if k == "list":
        if name == "append":
            I.list_append(recv, I.to_sv(args[0]))
            return const(None)
        if name == "extend":
            from .calls import list_extend
            list_extend(I, recv, args[0])
            return const(None)
        if name == "pop":
            n = I.list_len(recv)
            if not args:
                st.oblige("safety", "pop_empty", n > 0, line)
                v = I.list_get(recv, n - 1)
                st.assume_wt(v)
                st.setarr("llen", z3.Store(st.arr("llen"), r, smt.simp(n - 1)))
                return v
            i = I.norm_index(recv, I.to_sv(args[0]), line, "pop_index")
            v = I.list_get(recv, i)
            st.assume_wt(v)
            j = z3.Int("j!pop")
            src = z3.Select(st.arr("lel"), r)
            st.setarr("lel", z3.Store(st.arr("lel"), r, smt.index_map(st, j, z3.If(j < i, z3.Select(src, j), z3.Select(src, j + 1)))))
            st.setarr("llen", z3.Store(st.arr("llen"), r, smt.simp(n - 1)))
            return v
        if name == "insert":
            n = I.list_len(recv)
            i, _ = I.num(args[0])
            i = z3.If(i < 0, z3.If(i + n < 0, 0, i + n), z3.If(i > n, n, i))
            v = I.to_sv(args[1])
            j = z3.Int("j!ins")
            src = z3.Select(st.arr("lel"), r)
            st.setarr("lel", z3.Store(st.arr("lel"), r, smt.index_map(st, j, z3.If(j < i, z3.Select(src, j), z3.If(j == i, v.t, z3.Select(src, j - 1))))))
            st.setarr("llen", z3.Store(st.arr("llen"), r, smt.simp(n + 1)))
            return const(None)
        if name == "remove":
            n = I.list_len(recv)
            x = I.to_sv(args[0])
            st.oblige("safety", "remove_absent", I.contains(recv, x), line)
            # first occurrence removed: position p
            p = st.fresh("rm_pos", smt.I)
            src = z3.Select(st.arr("lel"), r)
            jj = z3.Int("j!rm0")
            st.assume(z3.And(p >= 0, p < n, z3.Select(src, p) == x.t, z3.ForAll([jj], z3.Implies(z3.And(jj >= 0, jj < p), z3.Select(src, jj) != x.t))))
            j = z3.Int("j!rm")
            st.setarr("lel", z3.Store(st.arr("lel"), r, smt.index_map(st, j, z3.If(j < p, z3.Select(src, j), z3.Select(src, j + 1)))))
            st.setarr("llen", z3.Store(st.arr("llen"), r, smt.simp(n - 1)))
            return const(None)
        if name == "clear":
            st.setarr("llen", z3.Store(st.arr("llen"), r, 0))
            return const(None)
        if name == "copy":
            nr = st.new_ref(LIST_CID)
            st.heap["llen"] = z3.Store(st.arr("llen"), nr, z3.Select(st.arr("llen"), r))
            st.heap["lel"] = z3.Store(st.arr("lel"), nr, z3.Select(st.arr("lel"), r))
            return SV(smt.mk_ref(nr), ty)
        if name == "index":
            n = I.list_len(recv)
            x = I.to_sv(args[0])
            st.oblige("safety", "index_absent", I.contains(recv, x), line)
            p = st.fresh("idx_pos", smt.I)
            src = z3.Select(st.arr("lel"), r)
            jj = z3.Int("j!ix0")
            st.assume(z3.And(p >= 0, p < n, z3.Select(src, p) == x.t, z3.ForAll([jj], z3.Implies(z3.And(jj >= 0, jj < p), z3.Select(src, jj) != x.t))))
            return SV(smt.mk_int(p), T.INT)
        raise Refuse(f"list.{name}")
    if k == "dict":
        if name == "get":
            key = I.to_sv(args[0])
            d = I.to_sv(args[1]) if len(args) > 1 else I.to_sv(kwargs.get("default", const(None)))
            v = I.dict_get(recv, key)
            has = I.dict_has(recv, key)
            if isinstance(d, SV) and d.ty.k in ("list", "dict", "set") and v.ty.k == d.ty.k and all(x.k == "any" for x in d.ty.a):
                d = SV(d.t, v.ty, d.c)  # an empty literal default takes the type of the mapping's values
            res = I.merge(has, v, d)
            if isinstance(res, SV):
                w = st.wt(v.ty, v.t)
                if w is not None:
                    st.assume(z3.Implies(has, w))
            return res
        if name == "pop":
            key = I.to_sv(args[0])
            has = I.dict_has(recv, key)
            v = I.dict_get(recv, key)
            if len(args) > 1:
                res = I.merge(has, v, I.to_sv(args[1]))
            else:
                I.safety("KeyError", "pop_key", has, line)
                res = v
                st.assume_wt(v)
            I.dict_del(recv, key)
            return res
        if name in ("keys", "values", "items"):
            return PIter(name, recv)
        if name == "setdefault":
            key = I.to_sv(args[0])
            d = I.to_sv(args[1]) if len(args) > 1 else const(None)
            has = I.dict_has(recv, key)
            cur = I.dict_get(recv, key)
            val = I.merge(has, cur, d)
            I.dict_set(recv, key, val)
            return val
        if name == "clear":
            st.setarr("dhas", z3.Store(st.arr("dhas"), r, z3.K(Val, z3.BoolVal(False))))
            st.setarr("dsz", z3.Store(st.arr("dsz"), r, 0))
            return const(None)
        if name == "update":
            # d.update(m) for a mapping with a concrete number of entries (a dict display): insert them in order
            src = args[0] if args else None
            if isinstance(src, SV) and T.strip_opt(src.ty).k == "dict" and not kwargs:
                sr = smt.rid(src.t)
                n = smt.simp(z3.Select(st.arr("dsz"), sr))
                if z3.is_int_value(n) and n.as_long() <= 32:
                    keys = z3.Select(st.arr("dkeys"), sr)
                    get = z3.Select(st.arr("dget"), sr)
                    vty = T.strip_opt(src.ty).a[1] if len(T.strip_opt(src.ty).a) > 1 else T.ANY
                    kty = T.strip_opt(src.ty).a[0] if T.strip_opt(src.ty).a else T.ANY
                    for j in range(n.as_long()):
                        kt = smt.simp(z3.Select(keys, j))
                        I.dict_set(recv, SV(kt, kty), SV(smt.simp(z3.Select(get, kt)), T.ANY if vty.k != "any" and False else T.ANY))
                    return const(None)
            raise Refuse("dict.update with a mapping of unknown size")
        if name == "copy":
            nr = st.new_ref(DICT_CID)
            for a in ("dhas", "dget", "dsz", "dkeys"):
                st.heap[a] = z3.Store(st.arr(a), nr, z3.Select(st.arr(a), r))
            return SV(smt.mk_ref(nr), ty)
        raise Refuse(f"dict.{name}")
    if k == "set":
        if name == "add":
            I.set_add(recv, I.to_sv(args[0]))
            return const(None)
        if name in ("remove", "discard"):
            x = I.to_sv(args[0])
            if name == "remove":
                st.oblige("safety", "set_remove_absent", I.dict_has(recv, x), line)
            I.dict_del(recv, x)
            return const(None)
        raise Refuse(f"set.{name}")
    if k == "str":
        if name in ("lower", "upper", "strip", "title", "capitalize"):
            if recv.c is not NOC and isinstance(recv.c, str):
                return const(getattr(recv.c, name)())
            if name == "lower":
                x = F_lower(smt.sval(recv.t))
                st.assume(x >= 0)
                return SV(smt.mk_str(x), T.STR)
            return st.fresh_val("str_" + name, T.STR)
        if name == "join" and args and isinstance(args[0], SV) and T.strip_opt(args[0].ty).k in ("list", "dict", "set") and not st.spec_depth:
            # str.join raises TypeError unless every item is a string
            a0 = args[0]
            r0 = smt.rid(a0.t)
            jq = z3.Int(f"j!join{st.n_fresh}")
            st.n_fresh += 1
            if T.strip_opt(a0.ty).k == "list":
                n0, el = z3.Select(st.arr("llen"), r0), z3.Select(z3.Select(st.arr("lel"), r0), jq)
            else:
                I.assume_dict_wf(a0)
                n0, el = z3.Select(st.arr("dsz"), r0), z3.Select(z3.Select(st.arr("dkeys"), r0), jq)
            K_ = st.cfg.get("ground")
            if K_:
                st.assume(n0 <= K_)
                goal = z3.And(*[z3.Implies(z3.IntVal(x_) < n0, smt.is_str(z3.substitute(el, (jq, z3.IntVal(x_))))) for x_ in range(K_)])
            else:
                goal = z3.ForAll([jq], z3.Implies(z3.And(jq >= 0, jq < n0), smt.is_str(el)))
            st.oblige("safety", "join_of_non_strings", goal, line)
            return st.fresh_val("str_join", T.STR)
        if name in ("format", "join", "replace", "zfill", "rjust", "ljust"):
            return st.fresh_val("str_" + name, T.STR)
        if name in ("startswith", "endswith", "isdigit", "isnumeric"):
            return SV(smt.mk_bool(st.fresh("str_" + name, smt.B)), T.BOOL)
        if name == "split":
            st.log.append("str.split(sep): a new non-empty list of opaque strings")
            l = fresh_container(I, T.LIST(T.STR))
            st.assume(z3.Select(st.arr("llen"), smt.rid(l.t)) >= 1)
            return l
        raise Refuse(f"str.{name}")
    if k == "ext" and ty.a[0] in ("rng", "numpy.random._generator.Generator", "numpy.random.Generator"):
        if name == "integers":
            lo = I.num(kwargs.get("low", args[0] if args else const(0)))[0]
            hi = I.num(kwargs.get("high", args[1] if len(args) > 1 else const(1)))[0]
            r_ = st.fresh("rng_int", smt.I)
            st.assume(z3.And(r_ >= lo, r_ < hi))
            return SV(smt.mk_int(r_), T.INT)
        if name == "choice" and len(args) == 1 and "p" in kwargs:
            # numpy Generator.choice(n, p=vec): requires len(vec) == n; ensures 0 <= r < n and vec[r] > 0
            # (choice(seq, p=vec): the same index r, result seq[r])
            pick_from = None
            if isinstance(args[0], SV) and T.strip_opt(args[0].ty).k == "list":
                pick_from = args[0]
                n_ = I.list_len(pick_from)
            else:
                n_, _ = I.num(args[0])
            p_ = kwargs["p"]
            if not isinstance(p_, SV) or T.strip_opt(p_.ty).k not in ("list", "dict"):
                raise Refuse("rng.choice(p=...) with a non-sequence probability vector")
            r_ = st.fresh("rng_choice", smt.I)
            if T.strip_opt(p_.ty).k == "list":
                st.oblige("safety", "choice_vector_length", I.list_len(p_) == n_, line)
                pv, isr = I.num(SV(z3.Select(z3.Select(st.arr("lel"), smt.rid(p_.t)), r_), T.FLOAT))
            else:  # the vector is only known through an (ill-annotated) mapping-typed contract result: index = key
                st.oblige("safety", "choice_vector_length", z3.Select(st.arr("dsz"), smt.rid(p_.t)) == n_, line)
                pv, isr = I.num(SV(z3.Select(z3.Select(st.arr("dget"), smt.rid(p_.t)), smt.mk_int(r_)), T.FLOAT))
            st.assume(z3.And(r_ >= 0, r_ < n_, pv > 0))
            st.log.append("numpy Generator.choice(n, p): 0 <= r < n and p[r] > 0 (assumed library contract)")
            if pick_from is not None:
                v_ = I.list_get(pick_from, r_)
                st.assume_wt(v_)
                return v_
            return SV(smt.mk_int(r_), T.INT)
        raise Refuse(f"rng.{name}")
    raise Refuse(f"method {name} on value of type {recv.ty}")
