"""C18: a link never carries more than its bandwidth in a tick; down links carry nothing."""
from pyvc.contracts import contract, spec, inline, attr_types, writers

B = "src/primaite/simulator/network/hardware/base.py"
D = "src/primaite/simulator/network/transmission/data_link_layer.py"
S = "src/primaite/simulator/network/hardware/nodes/network/switch.py"

# Frame.size is the length of the frame's JSON serialisation -- string behaviour no contract here can decide.  It is
# modelled as a ghost field `_g_size` of the frame that only the frame's own mutators may change.
attr_types({"Frame._g_size": "float"})

spec("link_ok(l)", "l.current_load <= l.bandwidth and l.bandwidth >= 0")
spec("all_links_ok()", "forall_obj(l, Link, link_ok(l))")

contract(f"{D}::Frame.size_Mbits", verify=False,
         note="serialisation length: opaque non-negative real, read from the ghost field",
         ensures=["result == self._g_size", "result >= 0"], modifies=[])
contract(f"{D}::Frame.set_sent_timestamp", verify=False,
         note="stamping changes the serialised size unless the frame was stamped before",
         ensures=["implies(old(self.sent_timestamp) is not None, self._g_size == old(self._g_size))", "self._g_size >= 0"],
         modifies=["self.sent_timestamp", "self._g_size"])

# the global invariant every frame handler is assumed to keep (justified by: the only writers of current_load /
# bandwidth are the functions proved below -- see the writers() rules -- and every transmit is preceded by the
# admission check, proved in the two send_frame functions)
contract(f"{B}::WiredNetworkInterface.receive_frame", verify=False,
         note="assumed for every override (NIC, SwitchPort, RouterInterface): may do anything, including sending frames "
              "over any link (also the delivering one), but keeps every link within its bandwidth",
         requires=["all_links_ok()"],
         ensures=["all_links_ok()", "forall_obj(l, Link, l.bandwidth == old(l.bandwidth))"],
         modifies=["heap"], allocates=True)

contract(f"{B}::NetworkInterface.send_frame", verify=False,
         note="traffic / NMNE bookkeeping of the sending interface only",
         ensures=[], modifies=["self.nmne{*}", "self.traffic{*}"])

contract(f"{B}::Link.can_transmit_frame",
         props=["C18"],
         ensures=[("admission", "result == (self.endpoint_a.enabled and self.endpoint_b.enabled"
                                " and self.current_load + frame._g_size <= self.bandwidth)")],
         modifies=[])

contract(f"{B}::Link.transmit_frame",
         props=["C18"],
         requires=["all_links_ok()", "frame._g_size >= 0", "self.current_load + frame._g_size <= self.bandwidth"],
         ensures=[("within_bandwidth", "all_links_ok()"),
                  ("bandwidth_constant", "forall_obj(l, Link, l.bandwidth == old(l.bandwidth))")],
         emits=[("link_transmit", ["self", "frame"])],
         modifies=["heap"], allocates=True)

contract(f"{B}::Link.pre_timestep",
         props=["C18"],
         ensures=[("load_reset", "self.current_load == 0")],
         modifies=["self.current_load"])

contract(f"{B}::Link.endpoint_down",
         props=["C18"],
         requires=["link_ok(self)"],
         ensures=[("still_ok", "link_ok(self)"),
                  ("down_means_empty", "implies(not (self.endpoint_a.enabled and self.endpoint_b.enabled), self.current_load == 0)")],
         modifies=["self.current_load"])

for key in (f"{B}::WiredNetworkInterface.send_frame", f"{S}::SwitchPort.send_frame"):
    contract(key,
             props=["C18"],
             # an interface belongs to a node (Node.connect_nic) and can only be enabled while a link is connected
             # (WiredNetworkInterface.enable); serialised sizes are non-negative
             requires=["all_links_ok()", "implies(self.enabled, self._connected_link is not None)",
                       "self._connected_node is not None", "frame._g_size >= 0"],
             ensures=[("within_bandwidth", "all_links_ok()"),
                      ("disabled_sends_nothing", "implies(not old(self.enabled), result == False and unchanged() and n_events() == old(n_events()))"),
                      # "no frame crosses a link unless both of its end interfaces are enabled": a transmit event only
                      # when the link was up at the admission check
                      ("down_link_carries_nothing", "implies(not old(self._connected_link.endpoint_a.enabled and self._connected_link.endpoint_b.enabled),"
                                                    " result == False and n_events() == old(n_events()))"),
                      # "a frame that would overflow is dropped at the sender" (size as stamped for sending)
                      ("overflow_dropped", "implies(old(self.enabled) and old(frame.sent_timestamp) is not None"
                                           " and old(self._connected_link.current_load + frame._g_size > self._connected_link.bandwidth),"
                                           " result == False and n_events() == old(n_events()))")],
             modifies=["heap"], allocates=True)

writers("C18", "current_load", [f"{B}::Link.transmit_frame", f"{B}::Link.pre_timestep", f"{B}::Link.endpoint_down"],
        why="the link invariant is maintained by these three functions only")
writers("C18", "bandwidth", [], why="a link's bandwidth is fixed at construction")
