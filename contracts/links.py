"""C18: a link never carries more than its bandwidth in a tick; down links carry nothing."""
from pyvc.contracts import contract, spec, inline, attr_types, writers, dispatch_contract

B = "src/primaite/simulator/network/hardware/base.py"
D = "src/primaite/simulator/network/transmission/data_link_layer.py"
S = "src/primaite/simulator/network/hardware/nodes/network/switch.py"

# Frame.size is the length of the frame's JSON serialisation -- string behaviour no contract here can decide.  It is
# modelled as a ghost field `_g_size` of the frame that only the frame's own mutators may change.
attr_types({"Frame._g_size": "float"})

spec("link_ok(l)", "l.current_load <= l.bandwidth and l.bandwidth >= 0")
spec("all_links_ok()", "forall_obj(l, Link, link_ok(l))")

contract(f"{D}::Frame.size_Mbits", verify=False,
         note="serialisation length: opaque non-negative real, read from the ghost field",
         ensures=["result == self._g_size", "result >= 0"], modifies=[])
contract(f"{D}::Frame.set_sent_timestamp", verify=False,
         note="stamping changes the serialised size unless the frame was stamped before",
         ensures=["implies(old(self.sent_timestamp) is not None, self._g_size == old(self._g_size))", "self._g_size >= 0"],
         modifies=["self.sent_timestamp", "self._g_size"])

# the global invariant every frame handler is assumed to keep (justified by: the only writers of current_load /
# bandwidth are the functions proved below -- see the writers() rules -- and every transmit is preceded by the
# admission check, proved in the two send_frame functions)
RECV_B = dict(
    note="assumed for every override (NIC, SwitchPort, RouterInterface, wireless): may do anything, including sending frames "
         "over any link (also the delivering one), but keeps every link within its bandwidth; the three wired overrides "
         "are proved to do so given the same assumption one level up (Node.receive_frame)",
    requires=["all_links_ok()"],
    ensures=["all_links_ok()", "forall_obj(l, Link, l.bandwidth == old(l.bandwidth))"],
    modifies=["heap"], allocates=True)
dispatch_contract(f"{B}::WiredNetworkInterface.receive_frame", **RECV_B)
dispatch_contract(f"{B}::NetworkInterface.receive_frame", **RECV_B)
# one level up: what a node does with a delivered frame (HostNode, Router, Firewall, Switch ... override it)
dispatch_contract(f"{B}::Node.receive_frame",
                  requires=["all_links_ok()"],
                  ensures=["all_links_ok()", "forall_obj(l, Link, l.bandwidth == old(l.bandwidth))"],
                  emits=[("deliver", ["self", "frame", "frame.ip.ttl"])],
                  modifies=["heap"], allocates=True)
contract(f"{B}::NetworkInterface._capture_nmne", verify=False, note="event bookkeeping of this interface only",
         ensures=[], modifies=["self.nmne{*}"])
contract(f"{B}::NetworkInterface._capture_traffic", verify=False, note="traffic bookkeeping of this interface only",
         ensures=[], modifies=["self.traffic{*}"])
contract(f"{D}::Frame.set_received_timestamp", verify=False, note="stamps the frame; its serialised size may change",
         ensures=["self._g_size >= 0"], modifies=["self.received_timestamp", "self._g_size"])

contract(f"{B}::NetworkInterface.send_frame", verify=False,
         note="traffic / NMNE bookkeeping of the sending interface only",
         ensures=[], modifies=["self.nmne{*}", "self.traffic{*}"])

contract(f"{B}::Link.can_transmit_frame",
         props=["C18"],
         ensures=[("admission", "result == (self.endpoint_a.enabled and self.endpoint_b.enabled"
                                " and self.current_load + frame._g_size <= self.bandwidth)")],
         modifies=[])

contract(f"{B}::Link.transmit_frame",
         props=["C18"],
         requires=["all_links_ok()", "frame._g_size >= 0", "self.current_load + frame._g_size <= self.bandwidth"],
         ensures=[("within_bandwidth", "all_links_ok()"),
                  ("bandwidth_constant", "forall_obj(l, Link, l.bandwidth == old(l.bandwidth))")],
         emits=[("link_transmit", ["self", "frame"])],
         modifies=["heap"], allocates=True)

contract(f"{B}::Link.pre_timestep",
         props=["C18"],
         ensures=[("load_reset", "self.current_load == 0")],
         modifies=["self.current_load"])

contract(f"{B}::Link.endpoint_down",
         props=["C18"],
         ensures=[("still_ok", "implies(old(link_ok(self)), link_ok(self))"),
                  ("down_means_empty", "implies(not (self.endpoint_a.enabled and self.endpoint_b.enabled), self.current_load == 0)")],
         modifies=["self.current_load"])

for key in (f"{B}::WiredNetworkInterface.send_frame", f"{S}::SwitchPort.send_frame"):
    contract(key,
             props=["C18"],
             # an interface belongs to a node (Node.connect_nic) and can only be enabled while a link is connected
             # (WiredNetworkInterface.enable); serialised sizes are non-negative
             requires=["all_links_ok()", "implies(self.enabled, self._connected_link is not None)",
                       "self._connected_node is not None", "frame._g_size >= 0"],
             ensures=[("within_bandwidth", "all_links_ok()"),
                      ("disabled_sends_nothing", "implies(not old(self.enabled), result == False and unchanged() and n_events() == old(n_events()))"),
                      # "no frame crosses a link unless both of its end interfaces are enabled": a transmit event only
                      # when the link was up at the admission check
                      ("down_link_carries_nothing", "implies(not old(self._connected_link.endpoint_a.enabled and self._connected_link.endpoint_b.enabled),"
                                                    " result == False and n_events() == old(n_events()))"),
                      # "a frame that would overflow is dropped at the sender" (size as stamped for sending)
                      ("overflow_dropped", "implies(old(self.enabled) and old(frame.sent_timestamp) is not None"
                                           " and old(self._connected_link.current_load + frame._g_size > self._connected_link.bandwidth),"
                                           " result == False and n_events() == old(n_events()))")],
             modifies=["heap"], allocates=True)

writers("C18", "current_load", [f"{B}::Link.transmit_frame", f"{B}::Link.pre_timestep", f"{B}::Link.endpoint_down"],
        why="the link invariant is maintained by these three functions only")
writers("C18", "bandwidth", [], why="a link's bandwidth is fixed at construction")

contract(f"{B}::Link.endpoint_up", props=["C18"], ensures=[], modifies=[])

# ---- receiving side: TTL and the enabled gate (C08 "every hop lowers the TTL, exhausted TTL is dropped"; C06/C12 "a disabled
# interface delivers nothing"); also the proof that these overrides keep the global link invariant
H = "src/primaite/simulator/network/hardware/nodes/host/host_node.py"
RT = "src/primaite/simulator/network/hardware/nodes/network/router.py"
inline(f"{D}::Frame.decrement_ttl")
RECV_ENS = [
    ("disabled_delivers_nothing", "implies(not old(self.enabled), result == False and unchanged() and n_events() == old(n_events()))"),
    ("exhausted_ttl_dropped", "implies(old(frame.ip.ttl) - 1 < 1, result == False and n_events() == old(n_events()))"),
    ("delivered_with_lower_ttl", "implies(result, event_kind(n_events() - 1) == ev('deliver') and event_arg(n_events() - 1, 2) == old(frame.ip.ttl) - 1)"),
    ("links_ok", "all_links_ok()"),
]
RECV_REQ = ["all_links_ok()", "self._connected_node is not None", "frame.ip is not None"]
contract(f"{S}::SwitchPort.receive_frame", props=["C08", "C06", "C18"], requires=RECV_REQ,
         ensures=RECV_ENS + [
             # a frame that an enabled port has taken off the wire has crossed the link: it is reported as accepted, so that
             # Link.transmit_frame keeps it in the link's load, whatever the switch then does with it
             ("taken_off_the_wire_is_accepted", "implies(old(self.enabled) and old(frame.ip.ttl) - 1 >= 1, result == True)")],
         modifies=["heap"], allocates=True)
contract(f"{H}::NIC.receive_frame", props=["C08", "C06", "C18"], requires=RECV_REQ,
         ensures=RECV_ENS + [
             # "handed to software only on the node that owns its destination": hosts accept a unicast frame only when it
             # is addressed to this interface's MAC, a broadcast only for their own / the subnet broadcast address
             ("accepts_only_own", "implies(result, old(frame.ethernet.dst_mac_addr == self.mac_address) if old(frame.ethernet.dst_mac_addr) != 'ff:ff:ff:ff:ff:ff'"
                                  " else old(frame.ip.dst_ip_address == self.ip_address or frame.ip.dst_ip_address == self.ip_network.broadcast_address))")],
         modifies=["heap"], allocates=True)
contract(f"{RT}::RouterInterface.receive_frame", props=["C08", "C06", "C18"], requires=RECV_REQ, ensures=RECV_ENS,
         modifies=["heap"], allocates=True)

# ---- wireless channel -------------------------------------------------------------------------------------------------
A = "src/primaite/simulator/network/airspace.py"
# capacity of the channel a sender uses (AirSpace.get_frequency_max_capacity_mbps, by the frequency's name)
spec("cap(air, name)", "(air.frequencies[name].data_rate_bps / (1024.0 * 1024.0)) if name in air.frequencies else 0.0")
spec("chan_load(air, nic)", "air.bandwidth_load[nic.frequency.frequency_hz] if nic.frequency.frequency_hz in air.bandwidth_load else 0.0")

contract(f"{A}::AirSpace.get_frequency_max_capacity_mbps", props=["C18"],
         ensures=[("capacity", "result == cap(self, freq_name)")], modifies=[])
contract(f"{A}::AirSpace.can_transmit_frame", props=["C18"],
         requires=["self.bandwidth_load is not self.frequencies"],
         ensures=[("admission", "result == (old(chan_load(self, sender_network_interface)) + frame._g_size"
                                " <= cap(self, sender_network_interface.frequency.name))"),
                  ("load_kept", "chan_load(self, sender_network_interface) == old(chan_load(self, sender_network_interface))"),
                  ("channel_known", "sender_network_interface.frequency.frequency_hz in self.bandwidth_load")],
         modifies=["self.bandwidth_load{*}"])
contract(f"{A}::AirSpace.reset_bandwidth_load", props=["C18"],
         ensures=[("loads_start_at_zero", "len(self.bandwidth_load) == 0")], modifies=["self.bandwidth_load"], allocates=True)
contract(f"{A}::AirSpace.transmit", props=["C18"],
         requires=["all_links_ok()", "sender_network_interface.frequency.frequency_hz in self.bandwidth_load", "frame._g_size >= 0",
                   "chan_load(self, sender_network_interface) + frame._g_size <= cap(self, sender_network_interface.frequency.name)"],
         ensures=[("links_ok", "all_links_ok()")],
         emits=[("air_transmit", ["self", "frame"])],
         modifies=["heap"], allocates=True,
         loops={0: {"inv": [("links_ok", "all_links_ok()")], "modifies": ["heap"]}})
contract(f"{A}::WirelessNetworkInterface.send_frame", props=["C18", "C06"],
         requires=["all_links_ok()", "self._connected_node is not None", "frame._g_size >= 0",
                   # distinct bookkeeping dictionaries (separate default_factory instances)
                   "self.nmne is not self.airspace.bandwidth_load and self.traffic is not self.airspace.bandwidth_load",
                   "self.nmne is not self.airspace.frequencies and self.traffic is not self.airspace.frequencies",
                   "self.airspace.bandwidth_load is not self.airspace.frequencies"],
         ensures=[("disabled_sends_nothing", "implies(not old(self.enabled), result == False and unchanged() and n_events() == old(n_events()))"),
                  ("overflow_dropped", "implies(old(self.enabled) and old(frame.sent_timestamp) is not None"
                                       " and old(chan_load(self.airspace, self) + frame._g_size > cap(self.airspace, self.frequency.name)),"
                                       " result == False and n_events() == old(n_events()))"),
                  ("links_ok", "all_links_ok()")],
         modifies=["heap"], allocates=True)
writers("C18", "bandwidth_load", [f"{A}::AirSpace.reset_bandwidth_load"],
        why="channel loads are replaced only by the per-tick reset (element updates are in can_transmit_frame / transmit, proved above)")
