"""C08: route choice (longest prefix, lowest metric on ties, default route as last resort), TTL, acceptance."""
from pyvc.contracts import contract, spec, inline

R = "src/primaite/simulator/network/hardware/nodes/network/router.py"

spec("as_ip(x)", "x if isinstance(x, IPv4Address) else IPv4Address(x)")
# route r covers destination d: d lies in the network IPv4Network(f"{r.address}/{r.subnet_mask}", strict=False)
spec("covers(r, d)", "in_net(as_ip(d), r.address, r.subnet_mask)")
# r is at least as good as s for a packet both cover: longer prefix, or equal prefix and no higher metric
spec("at_least_as_good(r, s)", "plen(r.subnet_mask) > plen(s.subnet_mask) or (plen(r.subnet_mask) == plen(s.subnet_mask) and r.metric <= s.metric)")

contract(f"{R}::RouteTable.find_best_route",
         props=["C08"],
         # every stored subnet mask is a netmask (RouteEntry objects are built from validated configuration; an invalid
         # mask makes IPv4Network raise) and the destination is an address
         requires=["forall(k, 0, len(self.routes), valid_mask(self.routes[k].subnet_mask))",
                   "isinstance(destination_ip, IPv4Address)"],
         ensures=[
             # some route covers the destination  =>  the result is a covering route of the table that is at least as
             # good as every covering route (longest prefix; lowest metric among the longest)
             ("best_of_covering", "implies(exists(k, 0, len(self.routes), covers(self.routes[k], destination_ip)),"
                                  " result is not None and exists(k, 0, len(self.routes), result is self.routes[k]) and covers(result, destination_ip)"
                                  " and forall(j, 0, len(self.routes), implies(covers(self.routes[j], destination_ip), at_least_as_good(result, self.routes[j]))))"),
             # no route covers it  =>  the default route (possibly None) as last resort
             ("default_last_resort", "implies(not exists(k, 0, len(self.routes), covers(self.routes[k], destination_ip)), result is self.default_route)"),
         ],
         modifies=[], allocates=True,
         loops={0: {"inv": [
             ("none_yet", "implies(best_route is None, longest_prefix == -1 and forall(j, 0, _i, not covers(self.routes[j], destination_ip)))"),
             ("best_so_far", "implies(best_route is not None,"
                             " exists(k, 0, _i, best_route is self.routes[k]) and covers(best_route, destination_ip)"
                             " and longest_prefix == plen(best_route.subnet_mask) and lowest_metric == best_route.metric"
                             " and forall(j, 0, _i, implies(covers(self.routes[j], destination_ip), at_least_as_good(best_route, self.routes[j]))))"),
             ("dest_is_ip", "isinstance(destination_ip, IPv4Address)"),
         ]}})

# ---- the table keeps every route it is given (primary and backup routes to one prefix stay side by side) ------------------------------
contract(f"{R}::RouteTable.add_route", props=["C08", "C20"], types={"address": "IPv4Address", "subnet_mask": "IPv4Address", "next_hop_ip_address": "IPv4Address"},
         ensures=[("appended", "len(self.routes) == old(len(self.routes)) + 1 and fresh(self.routes[len(self.routes) - 1])"
                               " and self.routes[len(self.routes) - 1].address == address and self.routes[len(self.routes) - 1].subnet_mask == subnet_mask"
                               " and self.routes[len(self.routes) - 1].next_hop_ip_address == next_hop_ip_address and self.routes[len(self.routes) - 1].metric == metric"),
                  ("earlier_routes_kept", "forall(k, 0, old(len(self.routes)), self.routes[k] is old(self.routes[k]))")],
         modifies=["self.routes[*]"], allocates=True, loops={0: {"inv": [], "modifies": []}})

# ---- address resolution on a router ends: each retry moves one step down  (first attempt -> re-attempt -> default-route attempt) -----------
# termination view: the measure talks about the two flags only, so every other callee is abstracted to "any effect, any result"
MEASURE = "2 if not is_reattempt else (1 if not is_default_route_attempt else 0)"
for fn in ("_get_arp_cache_mac_address", "_get_arp_cache_network_interface"):
    contract(f"{R}::RouterARP.{fn}", props=["C08"], decreases=MEASURE, abstract_callees=True,
             ensures=[], modifies=["heap"], allocates=True,
             loops=({0: {"inv": [], "modifies": ["heap"]}} if fn.endswith("interface") else {}))
