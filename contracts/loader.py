"""C20: the simulation built from a scenario file is what the file says -- the parts of the loader a contract reaches.

PrimaiteGame.from_config is one 180-line function; the blocks below are extracted from it mechanically on every run (located by the
text their first statement starts with; the extraction drops nothing inside the block, and its free variables are symbolic)."""
from pyvc.contracts import contract, spec, inline, attr_types, writers, dispatch_contract, ufun

G = "src/primaite/game/game.py"

# ---- simulation-wide defaults: a declared default is what a node gets unless the node's own entry says otherwise ----------------------------
attr_types({"FileSystem._default_folder_scan_duration": "Optional[int]", "FileSystem._default_folder_restore_duration": "Optional[int]"})
contract(f"{G}::PrimaiteGame.from_config#defaults", props=["C20"],
         region=("block", {"start": "if 'node_start_up_duration' in defaults_config", "count": 5}),
         types={"defaults_config": "Dict[str, Any]", "new_node": "Node"},
         ensures=[("start_up_default_applied", "implies('node_start_up_duration' in defaults_config, new_node.config.start_up_duration == defaults_config['node_start_up_duration'])"),
                  ("shut_down_default_applied", "implies('node_shut_down_duration' in defaults_config, new_node.config.shut_down_duration == defaults_config['node_shut_down_duration'])"),
                  ("folder_scan_default_applied", "implies('folder_scan_duration' in defaults_config, new_node.file_system._default_folder_scan_duration == defaults_config['folder_scan_duration'])"),
                  ("folder_restore_default_applied", "implies('folder_restore_duration' in defaults_config, new_node.file_system._default_folder_restore_duration == defaults_config['folder_restore_duration'])")],
         modifies=["heap"], allocates=True)
# the per-node durations are (re)assigned after the node has been switched on with zero durations: the node's own entry wins, then the
# scenario-wide default, then 3
contract(f"{G}::PrimaiteGame.from_config#durations", props=["C20"],
         region=("block", {"start": "new_node.config.start_up_duration = int(", "count": 2}),
         types={"defaults_config": "Dict[str, Any]", "new_node": "Node", "node_cfg": "Dict[str, Any]"},
         requires=["implies('start_up_duration' in node_cfg, isinstance(node_cfg['start_up_duration'], int))",
                   "implies('shut_down_duration' in node_cfg, isinstance(node_cfg['shut_down_duration'], int))",
                   "implies('node_start_up_duration' in defaults_config, isinstance(defaults_config['node_start_up_duration'], int))",
                   "implies('node_shut_down_duration' in defaults_config, isinstance(defaults_config['node_shut_down_duration'], int))"],
         ensures=[("declared_start_up_duration", "new_node.config.start_up_duration == (node_cfg['start_up_duration'] if 'start_up_duration' in node_cfg"
                                                 " else (defaults_config['node_start_up_duration'] if 'node_start_up_duration' in defaults_config else 3))"),
                  ("declared_shut_down_duration", "new_node.config.shut_down_duration == (node_cfg['shut_down_duration'] if 'shut_down_duration' in node_cfg"
                                                  " else (defaults_config['node_shut_down_duration'] if 'node_shut_down_duration' in defaults_config else 3))")],
         modifies=["new_node.config.start_up_duration", "new_node.config.shut_down_duration"], allocates=True)

# ---- interfaces: a declared interface number gets the declared address ------------------------------------------------------------------------
B = "src/primaite/simulator/network/hardware/base.py"
contract(f"{B}::Node.connect_nic", props=["C20"],
         requires=["self._nic_request_manager is not None", "not (network_interface.uuid in self.network_interfaces)",  # a new interface
                   "network_interface._parent is None"],
         ensures=[("next_free_number", "self.network_interface[old(len(self.network_interfaces)) + 1] is network_interface"
                                       " and network_interface.port_num == old(len(self.network_interfaces)) + 1"),
                  ("registered", "self.network_interfaces[network_interface.uuid] is network_interface and network_interface._connected_node is self"),
                  ("others_kept", "forall(k, 1, old(len(self.network_interfaces)) + 1, implies(old(k in self.network_interface), self.network_interface[k] is old(self.network_interface[k])))")],
         raises={"NetworkError": "network_interface.uuid in self.network_interface"},
         modifies=["heap"], allocates=True)
contract(f"{B}::generate_mac_address", verify=False, note="random MAC address text: an opaque string", ensures=[], modifies=[], allocates=True)

# ---- router ACL: every declared rule sits at its declared position with its declared action ------------------------------------------------
R = "src/primaite/simulator/network/hardware/nodes/network/router.py"
contract(f"{R}::Router.from_config#acl", props=["C20"], bounded=2,
         region=("block", {"start": "if acl:", "count": 1}),
         types={"acl": "Dict[int, Dict[str, str]]", "router": "Router"},
         requires=["acl_shape(router.acl)",
                   "forall(j, 0, len(acl), 0 <= dict_key(acl, j) and dict_key(acl, j) < router.acl.max_acl_rules - 1 and 'action' in dict_val(acl, j)"
                   " and (dict_val(acl, j)['action'] == 'PERMIT' or dict_val(acl, j)['action'] == 'DENY'))",
                   # named ports / protocols are names the simulator knows (anything else is a malformed scenario: KeyError)
                   "forall(j, 0, len(acl), implies('src_port' in dict_val(acl, j), dict_val(acl, j)['src_port'] in PORT_LOOKUP)"
                   " and implies('dst_port' in dict_val(acl, j), dict_val(acl, j)['dst_port'] in PORT_LOOKUP)"
                   " and implies('protocol' in dict_val(acl, j), dict_val(acl, j)['protocol'] in PROTOCOL_LOOKUP))"],
         ensures=[("declared_rule_at_declared_position",
                   "forall(j, 0, len(acl), router.acl._acl[dict_key(acl, j)] is not None"
                   " and router.acl._acl[dict_key(acl, j)].action == (ACLAction.PERMIT if dict_val(acl, j)['action'] == 'PERMIT' else ACLAction.DENY)"
                   " and router.acl._acl[dict_key(acl, j)].src_ip_address == dict_val(acl, j).get('src_ip')"
                   " and router.acl._acl[dict_key(acl, j)].dst_ip_address == dict_val(acl, j).get('dst_ip'))"),
                  ("nothing_else_placed", "forall(q, 0, len(router.acl._acl), implies(not (q in acl), router.acl._acl[q] is old(router.acl._acl[q])))")],
         modifies=["heap"], allocates=True)

# ---- the whole loader against an independently derived inventory: BOUNDED stand-in (generated scenario family) ------------------------------
from pyvc.contracts import native_bounded  # noqa: E402
native_bounded("C20", "loader-inventory", "bounded/loader_inventory.py",
               "one switch, computer, server, router, firewall and four links; 38 single-point variations of every declared item kind (firewall included), each also with all mapping keys in reverse order",
               "inventory read off the object graph built by the real PrimaiteGame.from_config == inventory derived independently from the scenario dictionary")
