"""C10: reward = weighted sum of components; shared rewards use same-step values."""
from pyvc.contracts import contract, spec, inline, attr_types, writers, dispatch_contract

RW = "src/primaite/game/agent/rewards.py"
G = "src/primaite/game/game.py"
IF = "src/primaite/game/agent/interface.py"

# what a component's calculate() may do: update its own sticky value; what it returned is logged as an event
dispatch_contract(f"{RW}::AbstractReward.calculate", ensures=["isinstance(result, float) or isinstance(result, int)"],
                  modifies=["AbstractReward.reward", "AbstractReward.location_in_state", "AbstractReward.callback"],
                  emits_after=[("calc", ["self", "result", "last_action_response"])], allocates=True)
contract(f"{RW}::AbstractReward.calculate", verify=False, note="abstract; see dispatch contract",
         ensures=["isinstance(result, float) or isinstance(result, int)"],
         modifies=["AbstractReward.reward", "AbstractReward.location_in_state", "AbstractReward.callback"],
         emits_after=[("calc", ["self", "result", "last_action_response"])], allocates=True)

# the weighted sum of what the components returned in this call, in order
spec("wsum(rf, base, n)", "psum(k, 0, n, rf.reward_components[k][1] * event_arg(base + k, 1))")
contract(f"{RW}::RewardFunction.update", props=["C10"],
         ensures=[("weighted_sum", "result == wsum(self, old(n_events()), len(self.reward_components))"),
                  ("stored", "self.current_reward == result"),
                  ("each_component_once_in_order", "n_events() == old(n_events()) + len(self.reward_components) and"
                                                   " forall(k, 0, len(self.reward_components), event_kind(old(n_events()) + k) == ev('calc')"
                                                   " and event_arg(old(n_events()) + k, 0) is self.reward_components[k][0]"
                                                   " and event_arg(old(n_events()) + k, 2) is last_action_response)"),
                  ("total_untouched", "self.total_reward == old(self.total_reward)")],
         modifies=["self.current_reward", "AbstractReward.reward", "AbstractReward.location_in_state", "AbstractReward.callback"],
         allocates=True,
         loops={0: {"inv": [("partial_sum", "total == wsum(self, old(n_events()), _i)"),
                            ("events_so_far", "n_events() == old(n_events()) + _i and forall(k, 0, _i, event_kind(old(n_events()) + k) == ev('calc')"
                                              " and event_arg(old(n_events()) + k, 0) is self.reward_components[k][0]"
                                              " and event_arg(old(n_events()) + k, 2) is last_action_response)"),
                            ("fields", "self.current_reward == old(self.current_reward) and self.total_reward == old(self.total_reward)")],
                    "modifies": ["AbstractReward.reward", "AbstractReward.location_in_state", "AbstractReward.callback"]}})

from pyvc.contracts import native_bounded  # noqa: E402
native_bounded("C10", "science.graph_has_cycle+topological_sort", "bounded/science_graphs.py", "all directed graphs on <= 4 agents x all declaration orders",
               "cyclic sharing rejected; acyclic graphs sorted dependencies-first (recursive closures over sets: outside the prover's subset)")

# each component is evaluated on that agent's own latest action and response
contract(f"{IF}::AbstractAgent.update_reward", props=["C10"],
         requires=["len(self.history) >= 1"],
         ensures=[("own_latest_response", "n_events() == old(n_events()) + len(self.reward_function.reward_components) and"
                                          " forall(k, 0, len(self.reward_function.reward_components),"
                                          " event_arg(old(n_events()) + k, 2) is old(self.history[len(self.history) - 1]))"),
                  ("returns_reward", "result == self.reward_function.current_reward")],
         modifies=["self.reward_function.current_reward", "AbstractReward.reward", "AbstractReward.location_in_state", "AbstractReward.callback"],
         allocates=True)
contract(f"{IF}::AbstractAgent.save_reward_to_history", props=["C10", "C01"],
         requires=["len(self.history) >= 1"],
         ensures=[("recorded", "self.history[len(self.history) - 1].reward == self.reward_function.current_reward")],
         modifies=["AgentHistoryItem.reward"])
# the callback installed for shared rewards reads the other agent's reward *at call time* (so evaluation order matters)
contract(f"{G}::PrimaiteGame.setup_reward_sharing#callback", region=("lambda", 0), props=["C10"], types={"agent_name": "str"},
         requires=["agent_name in self.agents"],
         ensures=[("current_value_of_that_agent", "result == self.agents[agent_name].reward_function.current_reward")], modifies=[])

# update_agents: per agent, in reward-calculation order: (from step 1 on) the reward is computed and recorded, and only then
# added to that agent's episode total -- "an agent's episode total is the sum of its step rewards"
dispatch_contract(f"{IF}::AbstractAgent.update_observation", ensures=[], modifies=["ObservationManager.current_observation"], allocates=True)
contract(f"{IF}::AbstractAgent.update_observation", verify=False, note="observation refresh: observation manager state only",
         ensures=[], modifies=["ObservationManager.current_observation"], allocates=True)
spec("agent_at(g, k)", "g.agents[g._reward_calculation_order[k]]")
contract(f"{G}::PrimaiteGame.update_agents", props=["C10", "C01"],
         requires=["forall(k, 0, len(self._reward_calculation_order), self._reward_calculation_order[k] in self.agents"
                   " and len(agent_at(self, k).history) >= 1)",
                   # the order lists every agent once; different agents have different reward functions
                   "forall(a, 0, len(self._reward_calculation_order), forall(b, 0, len(self._reward_calculation_order), implies(a != b,"
                   " agent_at(self, a) is not agent_at(self, b) and agent_at(self, a).reward_function is not agent_at(self, b).reward_function)))"],
         ensures=[("total_is_sum_of_step_rewards", "forall(k, 0, len(self._reward_calculation_order),"
                                                   " agent_at(self, k).reward_function.total_reward == old(agent_at(self, k).reward_function.total_reward)"
                                                   " + agent_at(self, k).reward_function.current_reward)")],
         modifies=["RewardFunction.current_reward", "RewardFunction.total_reward", "AbstractReward.reward", "AbstractReward.location_in_state",
                   "AbstractReward.callback", "AgentHistoryItem.reward", "ObservationManager.current_observation"],
         allocates=True,
         loops={0: {"inv": [("done_so_far", "forall(k, 0, _i, agent_at(self, k).reward_function.total_reward == old(agent_at(self, k).reward_function.total_reward)"
                                            " + agent_at(self, k).reward_function.current_reward)"),
                            ("rest_untouched", "forall(k, _i, len(self._reward_calculation_order),"
                                               " agent_at(self, k).reward_function.total_reward == old(agent_at(self, k).reward_function.total_reward))"),
                            ("structure", "self.step_counter == old(self.step_counter)")]}})

# ---- reward sharing set-up: every shared-reward dependency is recorded, cyclic sharing is rejected -----------------------------
SCI = "src/primaite/game/science.py"
from pyvc.contracts import ufun  # noqa: E402
ufun("cyclic", 1, "bool")       # cyclic(seq(graph)): the dependency graph has a cycle (decided by graph_has_cycle, bounded stand-in above)
contract(f"{SCI}::graph_has_cycle", verify=False, note="recursive closure over sets: outside the subset; checked by the bounded stand-in",
         ensures=["result == cyclic(seq(graph))"], modifies=[], emits=[("cycle_check", ["graph"])], exact_events=True, allocates=True)
contract(f"{SCI}::topological_sort", verify=False, note="recursive closure over sets: outside the subset; checked by the bounded stand-in",
         ensures=[], modifies=[], emits=[("topo_sort", ["graph"])], exact_events=True, allocates=True)
spec("the_graph()", "cast(event_arg(n_events() - 1, 0), 'Dict[str, Set[str]]')")
contract(f"{G}::PrimaiteGame.setup_reward_sharing", props=["C10"], bounded=2,
         ensures=[("sorted_graph_is_checked_graph", "n_events() == old(n_events()) + 2 and event_kind(n_events() - 2) == ev('cycle_check')"
                                                    " and event_kind(n_events() - 1) == ev('topo_sort') and event_arg(n_events() - 2, 0) is the_graph()"),
                  # every agent has an entry, and EVERY shared-reward component of an agent is recorded as a dependency
                  ("all_dependencies_recorded", "forall(j, 0, len(self.agents), dict_key(self.agents, j) in the_graph()"
                                                " and forall(k, 0, len(dict_val(self.agents, j).reward_function.reward_components),"
                                                " implies(isinstance(dict_val(self.agents, j).reward_function.reward_components[k][0], SharedReward),"
                                                " dict_val(self.agents, j).reward_function.reward_components[k][0].config.agent_name in the_graph()[dict_key(self.agents, j)])))"),
                  ("cyclic_rejected", "not cyclic(seq(the_graph()))")],
         raises={"RuntimeError": "True"},
         modifies=["heap"], allocates=True)

# ---- the weights of the sum are the configured weights (C10 "reward = weighted sum of the configured components") ---------------------------
contract(f"{RW}::RewardFunction.register_component", props=["C10"],
         ensures=[("appended_with_its_weight", "len(self.reward_components) == old(len(self.reward_components)) + 1"
                                               " and self.reward_components[len(self.reward_components) - 1][0] is component"
                                               " and self.reward_components[len(self.reward_components) - 1][1] == weight"),
                  ("earlier_kept", "forall(k, 0, old(len(self.reward_components)), self.reward_components[k] is old(self.reward_components[k]))")],
         modifies=["self.reward_components[*]"], allocates=True)
contract(f"{RW}::RewardFunction.__init__#components", props=["C10"], bounded=2,
         region=("block", {"start": "for rew_config in self.config.reward_components", "count": 1}),
         types={"self": "RewardFunction"},
         requires=["len(self.reward_components) == 0", "forall(j, 0, len(self.config.reward_components), self.config.reward_components[j].type in AbstractReward._registry)"],
         ensures=[("one_component_per_entry_with_its_weight", "len(self.reward_components) == len(self.config.reward_components)"
                                                              " and forall(j, 0, len(self.config.reward_components), self.reward_components[j][1] == self.config.reward_components[j].weight)")],
         modifies=["heap"], allocates=True)

# ---- one component under contract: "sticky components keep their last value until the next qualifying event while non-sticky ones return to zero" --
spec("browse_asked(c, item)", "item.request == ['network', 'node', c.config.node_hostname, 'application', 'web-browser', 'execute']")
spec("wb(c, state)", "cast(leaf(state, ['network', 'nodes', c.config.node_hostname, 'applications', 'web-browser']), 'Dict[str, Any]')")
contract(f"{RW}::WebpageUnavailablePenalty.calculate", props=["C10"],
         types={"state": "Dict[str, Any]"}, attr_types={"WebpageUnavailablePenalty.location_in_state": "List[str]"},
         # what WebBrowser.describe_state reports: a history list of records with an outcome
         assume_after_call={"access_from_nested_dict": [
             "implies(result is not NOT_PRESENT_IN_STATE, isinstance(result, dict) and 'history' in cast(result, 'Dict[str, Any]')"
             " and isinstance(cast(result, 'Dict[str, Any]')['history'], list)"
             " and forall(j, 0, len(cast(cast(result, 'Dict[str, Any]')['history'], 'List[Dict[str, Any]]')),"
             " 'outcome' in cast(cast(result, 'Dict[str, Any]')['history'], 'List[Dict[str, Any]]')[j]))"]},
         ensures=[("sticky_keeps_its_value_until_the_next_request",
                   "implies(self.config.sticky and not browse_asked(self, last_action_response)"
                   " and not absent(state, self.location_in_state), result == old(self.reward))"),
                  ("non_sticky_returns_to_zero", "implies(not self.config.sticky and not browse_asked(self, last_action_response), result == 0.0)"),
                  ("a_failed_request_is_penalised", "implies(browse_asked(self, last_action_response) and last_action_response.response.status != 'success', result == -1.0)"),
                  ("stored", "self.reward == result")],
         modifies=["self.reward", "self.location_in_state"], allocates=True)
