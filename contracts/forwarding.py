"""C06 (a device that decides to drop, drops) and the router half of C08 (ownership of the destination address)."""
from pyvc.contracts import contract, spec, inline, attr_types, writers, dispatch_contract

RT = "src/primaite/simulator/network/hardware/nodes/network/router.py"
B = "src/primaite/simulator/network/hardware/base.py"
ARP = "src/primaite/simulator/system/services/arp/arp.py"
SM = "src/primaite/simulator/system/core/session_manager.py"
SWM = "src/primaite/simulator/system/core/software_manager.py"
D = "src/primaite/simulator/network/transmission/data_link_layer.py"

# Frame.__init__ refuses TCP/UDP frames without the matching header
spec("wf_frame(f)", "f.ip is not None and implies(f.ip.protocol == 'tcp', f.tcp is not None) and implies(f.ip.protocol == 'udp', f.udp is not None)")
spec("owns_ip(router, ip)", "exists(j, 0, len(router.network_interface), dict_val(router.network_interface, j).ip_address == ip)")
spec("acl_wf(acl)", "wf_acl(acl)"
     " and forall(a, 0, len(acl._acl), forall(b, 0, len(acl._acl), implies(a != b and acl._acl[a] is not None, acl._acl[a] is not acl._acl[b])))"
     " and forall(a, 0, len(acl._acl), acl._acl[a] is not acl.implicit_rule)")

contract(f"{ARP}::ARP.get_arp_cache_network_interface", verify=False, note="pure ARP-cache lookup (the router variant may send ARP requests: not modelled)",
         ensures=[], modifies=[])
contract(f"{ARP}::ARP.get_arp_cache_mac_address", verify=False, note="pure ARP-cache lookup (the router variant may send ARP requests: not modelled)",
         ensures=[], modifies=[])
contract(f"{ARP}::ARP.add_arp_cache_entry", verify=False, note="address learning: touches this ARP cache only",
         ensures=[], modifies=["self.arp{*}"], emits=[("learn", ["self", "ip_address"])], allocates=True)
dispatch_contract(f"{SM}::SessionManager.receive_frame", note="hand-off to the node's own software: anything may happen",
                  ensures=[], modifies=["heap"], emits=[("handoff", ["self", "frame"])], allocates=True)
contract(f"{SM}::SessionManager.receive_frame", verify=False, note="hand-off to the node's own software: anything may happen",
         ensures=[], modifies=["heap"], emits=[("handoff", ["self", "frame"])], allocates=True)
contract(f"{RT}::Router._get_port_of_nic", props=["C06"], ensures=[], modifies=[], loops={0: {"inv": []}})

contract(f"{RT}::Router.ip_is_router_interface", props=["C08", "C06"],
         ensures=[("owns", "implies(not enabled_only, result == owns_ip(self, ip_address))"),
                  ("owns_if_true", "implies(result, owns_ip(self, ip_address))")],
         modifies=[],
         loops={0: {"inv": [("none_so_far", "forall(j, 0, _i, dict_val(self.network_interface, j).ip_address != ip_address)")]}})

spec("masks_valid(router)", "forall(j, 0, len(router.network_interface), valid_mask(dict_val(router.network_interface, j).subnet_mask))")
contract(f"{RT}::Router.check_send_frame_to_session_manager", props=["C08", "C06"],
         requires=["wf_frame(frame)", "masks_valid(self)"],
         # "a unicast packet is handed to software only on the node that owns its destination address"
         ensures=[("only_own_address", "implies(result, owns_ip(self, frame.ip.dst_ip_address))"),
                  ("icmp_to_self", "implies(owns_ip(self, frame.ip.dst_ip_address) and frame.icmp is not None, result)")],
         modifies=[], allocates=True)

contract(f"{RT}::Router.subject_to_acl", props=["C06"], requires=["wf_frame(frame)"],
         ensures=[("all_but_arp", "result == (not (frame.ip.protocol == 'udp' and frame.udp.dst_port == 219))")], modifies=[], allocates=True)

# on a firewall, forwarding is only ever reached after a destination-side list of that firewall has permitted the frame
spec("fw_cleared(fw, f)", "permits(fw.internal_inbound_acl, f) or permits(fw.dmz_inbound_acl, f) or permits(fw.external_outbound_acl, f)")
contract(f"{RT}::Router.process_frame", verify=False, note="forwarding decision after the filter: not yet under contract",
         requires=["implies(isinstance(self, Firewall), fw_cleared(self, frame))"],
         ensures=[], modifies=["heap"], emits=[("process", ["self", "frame"])], allocates=True)
contract(f"{RT}::Router.receive_frame", props=["C06", "C12"],
         requires=["wf_frame(frame)", "acl_wf(self.acl)", "masks_valid(self)", "not isinstance(self, Firewall)"],
         ensures=[
             # "while a node is not ON it neither processes nor emits traffic"
             ("off_does_nothing", "implies(old(self.operating_state) != NodeOperatingState.ON, unchanged() and n_events() == old(n_events()))"),
             # "a frame that a router has decided to deny is never forwarded by it nor handed to its own software"
             # (no address learning, hand-off or forwarding event; only the deciding rule's hit counter moves)
             ("denied_goes_nowhere", "implies(old(self.operating_state) == NodeOperatingState.ON and old(not (frame.ip.protocol == 'udp' and frame.udp.dst_port == 219))"
                                     " and not old(permits(self.acl, frame)), n_events() == old(n_events()))"),
         ],
         modifies=["heap"], allocates=True)

inline(f"{B}::Layer3Interface.ip_network")
contract(f"{RT}::Router.ip_is_in_router_interface_subnet", props=["C08"],
         requires=["masks_valid(self)"],
         ensures=[("in_some_subnet", "implies(result, exists(j, 0, len(self.network_interface),"
                                     " in_net(ip_address, dict_val(self.network_interface, j).ip_address, dict_val(self.network_interface, j).subnet_mask)))")],
         modifies=[], allocates=True,
         loops={0: {"inv": []}})


# ---- firewall: every zone crossing consults the destination zone's list before anything is forwarded -----------------------
FW = "src/primaite/simulator/network/hardware/nodes/network/firewall.py"
# a firewall has its three ports (EXTERNAL_PORT_ID 1, INTERNAL_PORT_ID 2, DMZ_PORT_ID 3) from construction
FW_BASE = ["wf_frame(frame)", "masks_valid(self)", "self.software_manager.arp is not None",
           "1 in self.network_interface and 2 in self.network_interface and 3 in self.network_interface"]


def fw_req(*acls):
    return FW_BASE + [f"acl_wf(self.{z})" for z in acls]


for name, acl in (("_process_internal_inbound_frame", "internal_inbound_acl"), ("_process_dmz_inbound_frame", "dmz_inbound_acl"),
                  ("_process_external_outbound_frame", "external_outbound_acl")):
    contract(f"{FW}::Firewall.{name}", props=["C06"], requires=fw_req(acl),
             ensures=[("denied_goes_nowhere", f"implies(not old(permits(self.{acl}, frame)), n_events() == old(n_events()))")],
             modifies=["heap"], allocates=True)
for name, acl, nxt in (("_process_external_inbound_frame", "external_inbound_acl", ("dmz_inbound_acl", "internal_inbound_acl")),
                       ("_process_internal_outbound_frame", "internal_outbound_acl", ("dmz_inbound_acl", "external_outbound_acl")),
                       ("_process_dmz_outbound_frame", "dmz_outbound_acl", ("external_outbound_acl", "internal_inbound_acl"))):
    extra = ["forall(k, 0, len(self.route_table.routes), valid_mask(self.route_table.routes[k].subnet_mask))"] if "dmz_outbound" in name else []
    contract(f"{FW}::Firewall.{name}", props=["C06"], requires=fw_req(acl, *nxt) + extra,
             ensures=[("denied_goes_nowhere", f"implies(not old(permits(self.{acl}, frame)), n_events() == old(n_events()))")],
             modifies=["heap"], allocates=True)


# ---- forwarding (C08): every hop lowers the TTL, an exhausted TTL ends the journey; direct delivery only into the attached network -------
D_ = "src/primaite/simulator/network/transmission/data_link_layer.py"
contract(f"{D_}::Frame.decrement_ttl", props=["C08"], requires=["self.ip is not None"],
         ensures=[("one_less", "self.ip.ttl == old(self.ip.ttl) - 1")], modifies=["self.ip.ttl"])
dispatch_contract(f"{B}::NetworkInterface.send_frame", note="hand-over to an interface of whatever kind: the rest of the network may do anything",
                  ensures=[], modifies=["heap"], emits=[("send", ["self", "frame", "frame.ip.ttl"])], exact_events=True, allocates=True)
inline("src/primaite/simulator/system/core/software_manager.py::SoftwareManager.arp")
spec("fwd_wf(r, f)", "f.ip is not None and f.ethernet is not None and r.software_manager is not None and 'arp' in r.software_manager.software"
                     " and forall(k, 0, len(r.route_table.routes), valid_mask(r.route_table.routes[k].subnet_mask))")
contract(f"{RT}::Router.route_frame", props=["C08"], use_dispatch=["send_frame"],
         requires=["fwd_wf(self, frame)"],
         ensures=[("at_most_one_hand_over", "n_events() <= old(n_events()) + 1"),
                  # a frame leaves only with a TTL lowered by exactly one and still >= 1: forwarding ends
                  ("every_hop_lowers_ttl", "implies(n_events() == old(n_events()) + 1, event_kind(old(n_events())) == ev('send') and event_arg(old(n_events()), 1) is frame"
                                           " and event_arg(old(n_events()), 2) == old(frame.ip.ttl) - 1 and old(frame.ip.ttl) - 1 >= 1)"),
                  ("exhausted_ttl_ends_here", "implies(old(frame.ip.ttl) <= 1, n_events() == old(n_events()))")],
         modifies=["heap"], allocates=True)
dispatch_contract(f"{RT}::Router.route_frame", ensures=[], modifies=["heap"], emits=[("route", ["self", "frame"])], exact_events=True, allocates=True)
contract(f"{RT}::Router.process_frame#forwarding", props=["C08"], use_dispatch=["send_frame", "route_frame"], budget_s=600,
         requires=["fwd_wf(self, frame)"],
         ensures=[("at_most_one_step", "n_events() <= old(n_events()) + 1"),
                  # handed straight to an interface only when the destination lies in that interface's own network (everything
                  # else goes through the route table), with the TTL lowered by one and still >= 1
                  ("direct_delivery_only_into_the_attached_network",
                   "implies(n_events() == old(n_events()) + 1 and event_kind(old(n_events())) == ev('send'),"
                   " event_arg(old(n_events()), 1) is frame and event_arg(old(n_events()), 2) == old(frame.ip.ttl) - 1 and old(frame.ip.ttl) - 1 >= 1"
                   " and forall_obj(x, RouterInterface, implies(x is event_arg(old(n_events()), 0),"
                   " in_net(old(frame.ip.dst_ip_address), old(x.ip_address), old(x.subnet_mask)))))"),
                  ("otherwise_routed", "implies(n_events() == old(n_events()) + 1 and event_kind(old(n_events())) != ev('send'),"
                                       " event_kind(old(n_events())) == ev('route') and event_arg(old(n_events()), 1) is frame)"),
                  # a frame for one of the router's own addresses that no service took is dropped, not sent around
                  ("own_address_dropped", "implies(old(exists(j, 0, len(self.network_interfaces), dict_val(self.network_interfaces, j).ip_address == frame.ip.dst_ip_address)),"
                                          " n_events() == old(n_events()) and unchanged())")],
         modifies=["heap"], allocates=True,
         loops={0: {"inv": [("none_so_far", "forall(j, 0, _i, dict_val(self.network_interfaces, j).ip_address != frame.ip.dst_ip_address)")], "modifies": []}})
