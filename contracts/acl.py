"""C07 contracts: ACL verdict = first matching rule by position, else implicit action."""
from pyvc.contracts import contract, spec, inline

R = "src/primaite/simulator/network/hardware/nodes/network/router.py"

# ---- spec functions, written from the property statement (not from the code) -------------------------------------
# "a range given by a wildcard mask": every bit where the wildcard is 0 must agree
spec("masked_eq(x, b, w)", "forall(k, 0, 32, implies(bit(w, k) == 0, bit(x, k) == bit(b, k)))", opaque=True)
spec("sport(f)", "f.tcp.src_port if f.tcp is not None else (f.udp.src_port if f.udp is not None else None)")
spec("dport(f)", "f.tcp.dst_port if f.tcp is not None else (f.udp.dst_port if f.udp is not None else None)")
spec("addr_matches(a, base, wild)",
     "base is None or (masked_eq(a, base, wild) if wild is not None else a == base)")
# "all of whose specified fields match the packet, an unspecified field matching anything"; specified = not None
spec("matches(rule, f)", """
    (rule.protocol is None or rule.protocol == f.ip.protocol)
    and addr_matches(f.ip.src_ip_address, rule.src_ip_address, rule.src_wildcard_mask)
    and addr_matches(f.ip.dst_ip_address, rule.dst_ip_address, rule.dst_wildcard_mask)
    and (rule.src_port is None or rule.src_port == sport(f))
    and (rule.dst_port is None or rule.dst_port == dport(f))
""")
# type invariants of a rule as pydantic establishes them (Port in [0,65535], protocol one of the valid names)
spec("wf_rule(rule)", """
    (rule.protocol is None or rule.protocol != "")
    and (rule.src_port is None or (0 <= rule.src_port and rule.src_port <= 65535))
    and (rule.dst_port is None or (0 <= rule.dst_port and rule.dst_port <= 65535))
""")

contract(f"{R}::ip_matches_masked_range",
         props=["C07", "C06"],
         ensures=[("bitwise_spec", "result == masked_eq(ip_to_check, base_ip, wildcard_mask)")],
         reveal=["masked_eq"],
         modifies=[])

contract(f"{R}::ACLRule.permit_frame_check",
         props=["C07", "C06"],
         requires=["wf_rule(self)"],
         ensures=[("matches_spec", "result[1] == matches(self, frame)"),
                  ("permitted_spec", "result[0] == (matches(self, frame) and self.action == ACLAction.PERMIT)")],
         modifies=[])

# ---- the list ---------------------------------------------------------------------------------------------------
# every stored rule satisfies the pydantic type invariants
spec("wf_acl(acl)", "forall(k, 0, len(acl._acl), acl._acl[k] is None or wf_rule(acl._acl[k])) and wf_rule(acl.implicit_rule)")
# no earlier position holds a matching rule
spec("none_match_before(acl, f, n)", "forall(j, 0, n, acl._acl[j] is None or not matches(acl._acl[j], f))")

# the verdict of a packet filter, from the statement of C07: first matching rule by position, else the implicit action
spec("permits(acl, f)", """
    exists(p, 0, len(acl._acl), acl._acl[p] is not None and matches(acl._acl[p], f) and none_match_before(acl, f, p)
           and acl._acl[p].action == ACLAction.PERMIT)
    or (none_match_before(acl, f, len(acl._acl)) and acl.implicit_action == ACLAction.PERMIT)
""")

contract(f"{R}::AccessControlList.is_permitted",
         props=["C07", "C06"],
         requires=["wf_acl(self)",
                   # distinct positions hold distinct rule objects, none of them the implicit rule (established by
                   # add_rule, which always allocates a fresh ACLRule, and by __init__)
                   "forall(a, 0, len(self._acl), forall(b, 0, len(self._acl), implies(a != b and self._acl[a] is not None, self._acl[a] is not self._acl[b])))",
                   "forall(a, 0, len(self._acl), self._acl[a] is not self.implicit_rule)"],
         ensures=[
             # verdict = that of the lowest-positioned matching rule ...
             ("first_match", "forall(p, 0, len(self._acl), implies("
                             "self._acl[p] is not None and matches(self._acl[p], frame) and none_match_before(self, frame, p),"
                             "result[1] is self._acl[p] and result[0] == (self._acl[p].action == ACLAction.PERMIT)))"),
             # the verdict as one formula (used by the callers: Router / Firewall frame handling)
             ("verdict", "result[0] == old(permits(self, frame))"),
             # ... else the implicit action
             ("implicit", "implies(none_match_before(self, frame, len(self._acl)),"
                          "result[1] is self.implicit_rule and result[0] == (self.implicit_action == ACLAction.PERMIT))"),
             # exactly the deciding rule's hit counter goes up by one, every other rule's is unchanged (whole view)
             ("counters", "forall_obj(r, ACLRule, r.match_count == old(r.match_count) + (1 if r is result[1] else 0))"),
         ],
         modifies=["ACLRule.match_count"],
         loops={0: {"inv": [("scan", "none_match_before(self, frame, _i)"),
                            ("rule_none", "rule is None"),
                            ("counts", "forall_obj(r, ACLRule, r.match_count == old(r.match_count))")]}})

# ---- adding / removing rules ("changes only the addressed position") -------------------------------------------
spec("acl_shape(acl)", "len(acl._acl) == acl.max_acl_rules - 1")   # established by AccessControlList.__init__

contract(f"{R}::AccessControlList.add_rule",
         props=["C07"],
         requires=["acl_shape(self)"],
         ensures=[("returns_true", "result == True"),
                  ("fresh_rule", "self._acl[position] is not None and fresh(self._acl[position])"),
                  ("fields", "self._acl[position].action == action and self._acl[position].protocol == protocol"
                             " and self._acl[position].src_ip_address == src_ip_address"
                             " and self._acl[position].src_wildcard_mask == src_wildcard_mask"
                             " and self._acl[position].dst_ip_address == dst_ip_address"
                             " and self._acl[position].dst_wildcard_mask == dst_wildcard_mask"
                             " and self._acl[position].src_port == src_port and self._acl[position].dst_port == dst_port"
                             " and self._acl[position].match_count == 0"),
                  ("only_position", "len(self._acl) == old(len(self._acl)) and forall(q, 0, len(self._acl),"
                                    " implies(q != position, self._acl[q] is old(self._acl[q])))"),
                  ("in_range", "0 <= position and position < len(self._acl)")],
         raises={"ValueError": "not (0 <= position and position < self.max_acl_rules)",
                 # robustness note F9: the bound test admits position == max_acl_rules-1 == len(_acl); CPython raises
                 # IndexError there instead of the documented ValueError.  Nothing is changed, so C07 still holds.
                 "IndexError": "position == self.max_acl_rules - 1"},
         raises_ensures=[("nothing_changed", "len(self._acl) == old(len(self._acl)) and forall(q, 0, len(self._acl), self._acl[q] is old(self._acl[q]))")],
         modifies=["self._acl[*]"], allocates=True)

contract(f"{R}::AccessControlList.remove_rule",
         props=["C07"],
         requires=["acl_shape(self)"],
         ensures=[("returns_true", "result == True"),
                  ("removed", "self._acl[position] is None"),
                  ("only_position", "len(self._acl) == old(len(self._acl)) and forall(q, 0, len(self._acl),"
                                    " implies(q != position, self._acl[q] is old(self._acl[q])))"),
                  ("in_range", "0 <= position and position < len(self._acl)")],
         raises={"ValueError": "not (0 <= position and position < self.max_acl_rules - 1)"},
         raises_ensures=[("nothing_changed", "len(self._acl) == old(len(self._acl)) and forall(q, 0, len(self._acl), self._acl[q] is old(self._acl[q]))")],
         modifies=["self._acl[*]"], allocates=True)

# ---- the request API used by agent actions ----------------------------------------------------------------------
# positional arguments documented in AccessControlList._init_request_manager:
#   0 action name, 1 protocol ('ALL' = any), 2 src ip ('ALL'), 3 src wildcard ('NONE'), 4 src port ('ALL'),
#   5 dst ip ('ALL'), 6 dst wildcard ('NONE'), 7 dst port ('ALL'), 8 position
I = "src/primaite/interface/request.py"
inline(f"{I}::RequestResponse.from_bool")

contract(f"{R}::AccessControlList._init_request_manager#add_rule",
         props=["C07"], region=("request", "add_rule"), types={"request": "List[Any]", "context": "Any"},
         requires=["acl_shape(self)", "len(request) == 9", "request is not self._acl"],
         ensures=[("status", 'result.status == "success"'),
                  ("fresh_rule", "self._acl[int(request[8])] is not None and fresh(self._acl[int(request[8])])"),
                  ("action", 'self._acl[int(request[8])].action == (ACLAction.PERMIT if request[0] == "PERMIT" else ACLAction.DENY)'),
                  ("protocol", 'self._acl[int(request[8])].protocol == (None if request[1] == "ALL" else request[1])'),
                  ("src_ip", 'self._acl[int(request[8])].src_ip_address == (None if request[2] == "ALL" else IPv4Address(request[2]))'),
                  ("src_wildcard", 'self._acl[int(request[8])].src_wildcard_mask == (None if request[3] == "NONE" else IPv4Address(request[3]))'),
                  ("src_port", 'self._acl[int(request[8])].src_port == (None if request[4] == "ALL" else request[4])'),
                  ("dst_ip", 'self._acl[int(request[8])].dst_ip_address == (None if request[5] == "ALL" else IPv4Address(request[5]))'),
                  ("dst_wildcard", 'self._acl[int(request[8])].dst_wildcard_mask == (None if request[6] == "NONE" else IPv4Address(request[6]))'),
                  ("dst_port", 'self._acl[int(request[8])].dst_port == (None if request[7] == "ALL" else request[7])'),
                  ("only_position", "len(self._acl) == old(len(self._acl)) and forall(q, 0, len(self._acl),"
                                    " implies(q != int(request[8]), self._acl[q] is old(self._acl[q])))")],
         raises={"KeyError": 'request[0] != "PERMIT" and request[0] != "DENY"',
                 "ValueError": "not (0 <= int(request[8]) and int(request[8]) < self.max_acl_rules)",
                 "IndexError": "int(request[8]) == self.max_acl_rules - 1"},
         raises_ensures=[("nothing_changed", "len(self._acl) == old(len(self._acl)) and forall(q, 0, len(self._acl), self._acl[q] is old(self._acl[q]))")],
         modifies=["self._acl[*]"], allocates=True)

contract(f"{R}::AccessControlList._init_request_manager#remove_rule",
         props=["C07"], region=("request", "remove_rule"), types={"request": "List[Any]", "context": "Any"},
         requires=["acl_shape(self)", "len(request) == 1", "request is not self._acl"],
         ensures=[("status", 'result.status == "success"'),
                  ("removed", "self._acl[int(request[0])] is None"),
                  ("only_position", "len(self._acl) == old(len(self._acl)) and forall(q, 0, len(self._acl),"
                                    " implies(q != int(request[0]), self._acl[q] is old(self._acl[q])))")],
         raises={"ValueError": "not (0 <= int(request[0]) and int(request[0]) < self.max_acl_rules - 1)"},
         raises_ensures=[("nothing_changed", "len(self._acl) == old(len(self._acl)) and forall(q, 0, len(self._acl), self._acl[q] is old(self._acl[q]))")],
         modifies=["self._acl[*]"], allocates=True)
