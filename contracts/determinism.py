"""C03: same scenario, seed and actions give the same trajectory in any process -- the function-level facets a contract
can decide (DESIGN.md section 3, C03): (a) no order-dependent use of a hash-ordered set, (b) the seeding contract,
(c) unpredictable sources confined to reviewed call sites."""
from pyvc import scans
from pyvc.contracts import contract, spec, scan

ANCHORED = ["session/environment.py", "game/science.py", "scripted_agents/", "applications/nmap.py", "transmission/data_link_layer.py",
            "simulator/core.py", "game/game.py", "network/router.py", "session/episode_schedule.py", "core/software_manager.py",
            "core/session_manager.py", "hardware/base.py", "host/host_node.py", "network/switch.py", "agent/interface.py"]

SET_ORDER_OK = {
    "NMAP.port_scan:set(target_port)": "a set of ints: CPython's int hash does not depend on PYTHONHASHSEED, so the order is the same in every process",
    "NMAP.port_scan:ip_addresses": "list(ip_addresses) only feeds _determine_port_scan_type, which uses its length",
    "build_scheduler:files_to_load": "builds a mapping keyed by file name that is only ever looked up by key",
    "PrimaiteGame.from_config:set(software_cfg.get(": "the ports collected end up in a set again (software.listen_on_ports)",
    "SoftwareManager.get_open_ports:software.listen_on_ports": "a set of ints (ports): iteration order does not depend on PYTHONHASHSEED",
    "RouteTable.add_route:{address, subnet_mask, next_hop_ip_address}": "the loop only rebinds a local variable: no effect",
}
scan("C03", "set-iteration-order", lambda: scans.set_iteration_sites(ANCHORED, SET_ORDER_OK))

SOURCES_OK = {
    "set_random_seed:numpy.random.default_rng": "only when no seed is configured and one is to be generated: the generated seed is returned and recorded",
    "_SimOutput.__init__:datetime.now": "names of output directories (logging only)",
    "NetworkInterface.__hash__:hash()": "identity hash of an interface; no set of interfaces is iterated in the anchored files (set-iteration scan)",
    "IOSoftware.add_connection:datetime.now": "creation time stored in the connection record: displayed only",
    "DatabaseClient.get_new_connection:uuid.uuid4": "opaque connection identifier",
    "DatabaseClient._query:uuid.uuid4": "opaque query identifier",
    "DatabaseClient.query:uuid.uuid4": "opaque query identifier",
    "DatabaseService._generate_connection_id:uuid.uuid4": "opaque connection identifier",
    "NTPServer.receive:datetime.now": "NTP payload: stored as the client's time, not part of observations or rewards",
    "Terminal._create_local_connection:datetime.now": "timestamp field of a connection object: displayed only",
    "Terminal._send_remote_login:uuid.uuid4": "opaque connection request identifier",
    "Terminal._create_remote_connection:datetime.now": "timestamp field of a connection object: displayed only",
    # secrets.* (never seeded).  Allowed where the value is rendered with a fixed length (so Frame.size, the length of the frame's JSON,
    # does not depend on it) and is only ever compared for equality; the ICMP identifier is NOT allowed (known finding F22)
    "generate_mac_address:secrets.randbits": "six bytes rendered as two hex digits each: fixed length; MAC addresses are compared for equality and are keys of tables iterated in insertion order",
    "RouterICMP._process_icmp_echo_request:secrets.token_urlsafe": "echo payload of a fixed number of bytes (fixed rendered length), never inspected",
    "ICMP._send_icmp_echo_request:secrets.token_urlsafe": "echo payload of a fixed number of bytes (fixed rendered length), never inspected",
    "ICMP._process_icmp_echo_request:secrets.token_urlsafe": "echo payload of a fixed number of bytes (fixed rendered length), never inspected",
}
scan("C03", "unpredictable-sources", lambda: scans.unpredictable_sources(SOURCES_OK))

ENV = "src/primaite/session/environment.py"
# a configured seed seeds BOTH generators the simulation draws from (python's `random` and numpy's global generator)
contract(f"{ENV}::set_random_seed", props=["C03", "C04"],
         ensures=[("configured_seed_used", "implies(seed is not None and seed != -1 and seed >= -1, result == seed"
                                           " and n_events() == old(n_events()) + 2 and event_kind(n_events() - 2) == ev('seed_python') and event_arg(n_events() - 2, 0) == seed"
                                           " and event_kind(n_events() - 1) == ev('seed_numpy') and event_arg(n_events() - 1, 0) == seed)"),
                  ("no_seed_no_seeding", "implies((seed is None or seed == -1) and not generate_seed_value, result is None and n_events() == old(n_events()))")],
         raises={"ValueError": "seed is not None and seed < -1"},
         modifies=[], allocates=True,
         # call-site view: the two seeding calls, with the seed the function returns (none when it returns None)
         emits_after=[("seed_python", ["result"], "result is not None"), ("seed_numpy", ["result"], "result is not None")], exact_events=True)

# logging / output settings never steer the seeded random stream
scan("C03", "output-guarded-randomness", lambda: scans.output_guarded_randomness())

# the order in which agents' rewards are computed comes from sets of agent names (science.py): it is reproducible only in so far as ANY
# order the functions may produce is a valid dependencies-first order -- the bounded stand-in of C10, also run here
from pyvc.contracts import native_bounded  # noqa: E402
native_bounded("C03", "science.graph_has_cycle+topological_sort", "bounded/science_graphs.py", "all directed graphs on <= 4 agents x all declaration orders",
               "whatever order the set iteration yields, the evaluation order is dependencies-first for every declaration order (so shared rewards do not depend on the hash seed)")
