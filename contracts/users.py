"""C16: logins need valid credentials; remote commands need a live session."""
from pyvc.contracts import contract, spec, inline, attr_types, writers, dispatch_contract

B = "src/primaite/simulator/network/hardware/base.py"
TE = "src/primaite/simulator/system/services/terminal/terminal.py"

attr_types({"Terminal._connections": "Dict[str, Any]", "UserSessionManager._parent": "Node", "UserManager._parent": "Node"})
spec("um_can_act(um)", "(um.software_manager is None or um.software_manager.node.operating_state == NodeOperatingState.ON)"
                      " and um.operating_state == ServiceOperatingState.RUNNING")
# a login succeeds only with the current password of an existing, enabled account on a powered-on node
spec("credentials_ok(um, username, password)", "um_can_act(um) and username in um.users and not um.users[username].disabled"
                                               " and um.users[username].password == password")

contract(f"{B}::UserManager.authenticate_user", props=["C16"],
         ensures=[("only_valid_credentials", "(result is not None) == credentials_ok(self, username, password)"),
                  ("the_account", "implies(result is not None, result is self.users[username])")],
         modifies=[])
contract(f"{B}::UserManager.add_user", props=["C16"],
         ensures=[("added_iff_new", "result == ((bypass_can_perform_action or old(um_can_act(self))) and not old(username in self.users))"),
                  ("account", "implies(result, username in self.users and self.users[username].username == username and self.users[username].password == password"
                              " and self.users[username].is_admin == is_admin and not self.users[username].disabled)"),
                  ("existing_untouched", "implies(not result, len(self.users) == old(len(self.users)))")],
         modifies=["self.users{*}"], allocates=True)
contract(f"{B}::UserManager.enable_user", props=["C16"],
         ensures=[("enabled", "result == old(username in self.users and self.users[username].disabled)"),
                  ("flag", "implies(result, not self.users[username].disabled)")],
         modifies=["User.disabled"])

# ---- sessions ---------------------------------------------------------------------------------------------------------------
contract(f"{B}::UserSessionManager.validate_remote_session_uuid", props=["C16"],
         ensures=[("live_iff_known", "result == (remote_session_id in self.remote_sessions)")], modifies=[])
contract(f"{B}::UserSessionManager.remote_session_limit_reached", props=["C16"],
         ensures=[("limit", "result == (len(self.remote_sessions) >= self.max_remote_sessions)")], modifies=[])
contract(f"{B}::UserSession.create", props=["C16"],
         ensures=[("session", "fresh(result) and result.user is user and result.start_step == timestep and result.last_active_step == timestep and result.local == True"),
                  ("login_counted", "user.num_of_logins == old(user.num_of_logins) + 1")],
         modifies=["user.num_of_logins"], allocates=True)
contract(f"{B}::RemoteUserSession.create", props=["C16"],
         ensures=[("session", "fresh(result) and result.user is user and result.start_step == timestep and result.last_active_step == timestep"
                              " and result.local == False and result.remote_ip_address == remote_ip_address")],
         modifies=[], allocates=True)

# the terminal's side of ending a session: its own connection table (the disconnect message it sends is not modelled)
contract(f"{TE}::Terminal._disconnect", verify=False, note="removes the connection from the terminal's table; network side effects not modelled",
         ensures=[], modifies=["self._connections{*}"])
inline(f"{B}::UserSessionManager._user_manager")
inline(f"{B}::UserSessionManager.local_user_logged_in")

spec("usm_can_act(m)", "(m.software_manager is None or m.software_manager.node.operating_state == NodeOperatingState.ON)"
                       " and m.operating_state == ServiceOperatingState.RUNNING")
contract(f"{B}::UserSessionManager._logout", props=["C16", "C05"],
         requires=["self.parent is not None", "self.parent.terminal is not None"],
         ensures=[("remote_session_ended", "implies(not local and old(usm_can_act(self)) and old(remote_session_id in self.remote_sessions),"
                                           " result == True and remote_session_id not in self.remote_sessions"
                                           " and len(self.remote_sessions) == old(len(self.remote_sessions)) - 1)"),
                  # an unknown / stale id is refused, nothing raises, nothing changes
                  ("unknown_id_refused", "implies(not local and not old(remote_session_id in self.remote_sessions), result == False"
                                         " and len(self.remote_sessions) == old(len(self.remote_sessions)))"),
                  ("other_sessions_untouched", "implies(not local, same_dict_except(self.remote_sessions, remote_session_id) and self.local_session is old(self.local_session))"),
                  ("local_logout_keeps_remote", "implies(local, same_dict(self.remote_sessions))"),
                  ("local_session_ended", "implies(local and old(usm_can_act(self)), self.local_session is None)"),
                  ("inactive_service_does_nothing", "implies(not old(usm_can_act(self)), result == False and unchanged())")],
         modifies=["self.local_session", "self.remote_sessions{*}", "self.historic_sessions[*]", "UserSession.end_step", "self.parent.terminal._connections{*}"],
         allocates=True)

contract(f"{B}::UserSessionManager.local_logout", props=["C16"], requires=["self.parent is not None", "self.parent.terminal is not None"],
         ensures=[("ended", "implies(old(usm_can_act(self)), self.local_session is None)"),
                  ("remote_sessions_untouched", "same_dict(self.remote_sessions)")],
         modifies=["self.local_session", "self.remote_sessions{*}", "self.historic_sessions[*]", "UserSession.end_step", "self.parent.terminal._connections{*}"],
         allocates=True)

# UserSessionManager._logout_user (all sessions of a user end on a password change): its contract is ASSUMED at call sites (the
# inductive invariant over the session map does not discharge within budget) and backed by a BOUNDED check with at most two
# remote sessions (`_logout_user#bounded` at the end of this file) and by the system replay findings/round0_replays.py F4.

contract(f"{B}::UserSessionManager._login", props=["C16"],
         requires=["self.parent is not None", "self.parent.terminal is not None", "self.software_manager is not None",
                   "'user-manager' in self.software_manager.software", "isinstance(self.software_manager.software['user-manager'], UserManager)"],
         ensures=[("needs_valid_credentials", "implies(result is not None, old(usm_can_act(self)) and old(credentials_ok(self.software_manager.software['user-manager'], username, password)))"),
                  ("remote_needs_free_slot", "implies(not local and result is not None, old(len(self.remote_sessions)) < self.max_remote_sessions)"),
                  ("remote_session_registered", "implies(not local and result is not None, result in self.remote_sessions"
                                                " and self.remote_sessions[result].user is old(self.software_manager.software['user-manager'].users[username])"
                                                " and fresh(self.remote_sessions[result]))")],
         modifies=["heap"], allocates=True)

contract(f"{B}::UserSessionManager._logout_user", verify=False,
         note="ASSUMED (bounded evidence only, see above): ends every remote session and the local session of the user",
         ensures=["forall(j, 0, len(self.remote_sessions), dict_val(self.remote_sessions, j).user is not user)"],
         modifies=["self.local_session", "self.remote_sessions{*}", "self.historic_sessions[*]", "UserSession.end_step", "Terminal._connections"],
         emits=[("logout_user", ["self", "user"])], allocates=True)
inline(f"{B}::UserManager._user_session_manager")
contract(f"{B}::UserManager.change_user_password", props=["C16"],
         requires=["self.software_manager is not None", "'user-session-manager' in self.software_manager.software",
                   "isinstance(self.software_manager.software['user-session-manager'], UserSessionManager)"],
         ensures=[("changed_iff_authorised", "result == old(um_can_act(self) and username in self.users and self.users[username].password == current_password)"),
                  ("new_password_set", "implies(result, self.users[username].password == new_password)"),
                  # the sessions of that user are ended (through _logout_user) whenever the password changes
                  ("sessions_ended", "implies(result, n_events() == old(n_events()) + 1 and event_kind(n_events() - 1) == ev('logout_user')"
                                     " and event_arg(n_events() - 1, 1) is old(self.users[username]))"),
                  ("refused_changes_nothing", "implies(not result, unchanged() and n_events() == old(n_events()))")],
         modifies=["User.password", "UserSessionManager.local_session", "heap"], allocates=True)

# ---- "the last enabled administrator account can never be disabled" ---------------------------------------------------------------
spec("enabled_admin(u)", "u.is_admin and not u.disabled")
spec("n_enabled_admins_ge1(um)", "exists(j, 0, len(um.users), enabled_admin(dict_val(um.users, j)))")
contract(f"{B}::UserManager.disable_user", props=["C16"], bounded=3,
         requires=["forall(j, 0, len(self.users), dict_key(self.users, j) == dict_val(self.users, j).username)",
                   "forall(a, 0, len(self.users), forall(b, 0, len(self.users), implies(a != b, dict_val(self.users, a) is not dict_val(self.users, b))))"],
         ensures=[("an_enabled_admin_remains", "implies(old(n_enabled_admins_ge1(self)), n_enabled_admins_ge1(self))"),
                  ("disabled_iff_accepted", "implies(result, self.users[username].disabled)"),
                  ("refused_changes_nothing", "implies(not result, unchanged())")],
         modifies=["User.disabled"], allocates=True)

# ---- inactivity time-out: a session whose own time-out has passed is ended; its kind (local / remote) selects the time-out ---------
contract(f"{B}::UserSessionManager._timeout_session", verify=False, note="ends one session (session maps, terminal table, notification message)",
         ensures=[], modifies=["self.local_session", "self.remote_sessions{*}", "UserSession.end_step"],
         emits=[("timeout", ["self", "session"])], exact_events=True, allocates=True)
contract(f"{B}::UserSessionManager.pre_timestep", props=["C16", "C01"], bounded=2,
         # sessions are filed by kind (UserSession.create / RemoteUserSession.create set the flag)
         requires=["forall(j, 0, len(self.remote_sessions), not dict_val(self.remote_sessions, j).local)",
                   "implies(self.local_session is not None, self.local_session.local)"],
         ensures=[("expired_remote_sessions_end", "forall(j, 0, old(len(self.remote_sessions)), implies("
                                                  "old(dict_val(self.remote_sessions, j).last_active_step) + self.remote_session_timeout_steps <= timestep,"
                                                  " exists(e, old(n_events()), n_events(), event_kind(e) == ev('timeout') and event_arg(e, 1) is old(dict_val(self.remote_sessions, j)))))"),
                  ("live_remote_sessions_stay", "forall(e, old(n_events()), n_events(), implies(event_kind(e) == ev('timeout') and not cast(event_arg(e, 1), 'UserSession').local,"
                                                " cast(event_arg(e, 1), 'UserSession').last_active_step + self.remote_session_timeout_steps <= timestep))")],
         modifies=["heap"], allocates=True)

# ---- terminal: a local login goes through the session manager's credential check, every time ----------------------------------------
attr_types({"Terminal._parent": "Node"})
contract(f"{B}::UserSessionManager.local_login", verify=False, note="thin wrapper over _login(local=True), proved above",
         ensures=["implies(result is not None, old(credentials_ok(self.software_manager.software['user-manager'], username, password)))"],
         modifies=["heap"], emits=[("local_login", ["self", "username", "password"])], exact_events=True, allocates=True)
contract(f"{TE}::Terminal._create_local_connection", verify=False, note="wraps the session id in a connection object", ensures=["result is not None"],
         modifies=["self._connections{*}"], allocates=True)
contract(f"{TE}::Terminal._process_local_login", props=["C16"],
         requires=["self.parent is not None", "self.parent.user_session_manager is not None"],
         ensures=[("always_authenticates", "n_events() == old(n_events()) + 1 and event_kind(n_events() - 1) == ev('local_login')"
                                           " and event_arg(n_events() - 1, 1) == username and event_arg(n_events() - 1, 2) == password"),
                  ("connection_only_on_success", "implies(result is not None, True)")],
         modifies=["heap"], allocates=True)
inline(f"{B}::UserManager._is_last_admin", f"{B}::UserManager.admins", f"{B}::UserManager.disabled_admins")


# bounded evidence (<= 2 remote sessions) for the ASSUMED contract of _logout_user above: no session of the user is left
contract(f"{B}::UserSessionManager._logout_user#bounded", props=["C16"], bounded=2, types={"user": "User"},
         requires=["self.parent is not None", "self.parent.terminal is not None",
                   "forall(j, 0, len(self.remote_sessions), dict_key(self.remote_sessions, j) == dict_val(self.remote_sessions, j).uuid"
                   " and not dict_val(self.remote_sessions, j).local)",
                   "forall(a, 0, len(self.remote_sessions), forall(b, 0, len(self.remote_sessions), implies(a != b,"
                   " dict_val(self.remote_sessions, a) is not dict_val(self.remote_sessions, b))))",
                   "usm_can_act(self)", "self.parent.terminal._connections is not self.remote_sessions"],
         ensures=[("no_session_of_the_user_left", "forall(j, 0, len(self.remote_sessions), dict_val(self.remote_sessions, j).user is not user)"
                                                  " and (self.local_session is None or self.local_session.user is not user)")],
         modifies=["heap"], allocates=True)

# ---- the session manager's own request routes answer with a response, whatever the outcome of the login ------------------------------------
contract(f"{B}::UserSessionManager.remote_login", verify=False, note="thin wrapper over _login(local=False), proved above: the session id, or None when refused",
         ensures=[], modifies=["heap"], allocates=True)
contract(f"{B}::UserSessionManager._init_request_manager#remote_login", props=["C05", "C16"], region=("request", "remote_login"),
         types={"request": "List[Any]", "context": "Any"},
         requires=["len(request) == 3", "self.parent is not None"],
         ensures=[("answers_with_a_response", "result is not None and isinstance(result, RequestResponse)")],
         modifies=["heap"], allocates=True)
