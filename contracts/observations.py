"""C02 / C09: observation leaves -- members of their declared space, and faithful encodings of the state dictionary.

Chain per component kind:  <Component>.describe_state  (simulation object -> its state dictionary; proved: the entries are the
`.value`s of the object's enum-typed fields)  ->  [nesting into the simulation-wide state tree and look-up by `where`: ASSUMED]
->  <Component>Observation.observe  (state dictionary -> observation; proved: member of `self.space` as built by the real `space`
property, and equal to the documented encoding of the dictionary's entries)."""
from pyvc.contracts import contract, spec, inline, attr_types, writers, dispatch_contract, ufun

OBS = "src/primaite/game/agent/observations"
UT = "src/primaite/game/agent/utils.py"

# the state-tree lookup: a function of the tree and the key path (recursive helper; assumed, see DESIGN)
ufun("nested", 2, "any")
contract(f"{UT}::access_from_nested_dict", verify=False,
         note="recursive descent through the state dictionary: the value under the key path, or the NOT_PRESENT_IN_STATE sentinel",
         ensures=["result is nested(dictionary, seq(keys))"], modifies=[])
spec("leaf(state, where)", "nested(state, seq(where))")
spec("absent(state, where)", "leaf(state, where) is NOT_PRESENT_IN_STATE")

# ---- services ---------------------------------------------------------------------------------------------------------------------
SO = f"{OBS}/software_observation.py"
attr_types({"ServiceObservation.where": "List[str]", "ServiceObservation.services_requires_scan": "Optional[bool]",
            "ServiceObservation.default_observation": "Dict[str, int]"})
# what Service.describe_state produces for one service (proved below): enum values of the simulator's own enumerations
spec("svc_state_wf(d)", "'operating_state' in d and is_enum_value(d['operating_state'], ServiceOperatingState)"
                        " and 'health_state_visible' in d and is_enum_value(d['health_state_visible'], SoftwareHealthState)"
                        " and 'health_state_actual' in d and is_enum_value(d['health_state_actual'], SoftwareHealthState)")
spec("svc_default_wf(o)", "len(o.default_observation) == 2 and o.default_observation['operating_status'] == 0 and o.default_observation['health_status'] == 0"
                          " and 'operating_status' in o.default_observation and 'health_status' in o.default_observation")
contract(f"{SO}::ServiceObservation.__init__", props=["C02", "C09"], ensures=[("default_is_all_zero", "svc_default_wf(self)")],
         modifies=["self.where", "self.services_requires_scan", "self.default_observation"], allocates=True)
writers("C02", "default_observation", ["*.__init__"], why="the zero observation is fixed at construction")
contract(f"{SO}::ServiceObservation.observe", props=["C02", "C09"],
         requires=["svc_default_wf(self)", "implies(not absent(state, self.where), isinstance(leaf(state, self.where), dict)"
                   " and svc_state_wf(cast(leaf(state, self.where), 'Dict[str, Any]')))"],
         ensures=[("member_of_declared_space", "member(self.space, result)"),
                  # C09: documented encoding; visible health exactly when scanning is required, true health otherwise; absent -> zeros
                  ("absent_reads_default", "implies(absent(state, self.where), result['operating_status'] == 0 and result['health_status'] == 0)"),
                  ("operating_state_encoded", "implies(not absent(state, self.where), result['operating_status'] == cast(leaf(state, self.where), 'Dict[str, Any]')['operating_state'])"),
                  ("visible_health_iff_scan_required", "implies(not absent(state, self.where), result['health_status'] == (cast(leaf(state, self.where), 'Dict[str, Any]')['health_state_visible']"
                                                       " if self.services_requires_scan else cast(leaf(state, self.where), 'Dict[str, Any]')['health_state_actual']))")],
         modifies=[], allocates=True)

# ---- applications -----------------------------------------------------------------------------------------------------------------
attr_types({"ApplicationObservation.where": "List[str]", "ApplicationObservation.applications_requires_scan": "Optional[bool]",
            "ApplicationObservation.default_observation": "Dict[str, int]", "ApplicationObservation.low_app_execution_threshold": "int",
            "ApplicationObservation.med_app_execution_threshold": "int", "ApplicationObservation.high_app_execution_threshold": "int"})
spec("app_state_wf(d)", "'operating_state' in d and is_enum_value(d['operating_state'], ApplicationOperatingState)"
                        " and 'health_state_visible' in d and is_enum_value(d['health_state_visible'], SoftwareHealthState)"
                        " and 'health_state_actual' in d and is_enum_value(d['health_state_actual'], SoftwareHealthState)"
                        " and 'num_executions' in d and isinstance(d['num_executions'], int)")
spec("app_default_wf(o)", "len(o.default_observation) == 3 and 'operating_status' in o.default_observation and 'health_status' in o.default_observation"
                          " and 'num_executions' in o.default_observation and o.default_observation['operating_status'] == 0"
                          " and o.default_observation['health_status'] == 0 and o.default_observation['num_executions'] == 0")
# every count, from zero past the top threshold, lands in one of the four bins
spec("bin4(x, lo, med, hi)", "3 if x > hi else (2 if x > med else (1 if x > lo else 0))")
contract(f"{SO}::ApplicationObservation._categorise_num_executions", props=["C02", "C09"],
         ensures=[("four_bins", "0 <= result and result <= 3"),
                  ("documented_bins", "result == bin4(num_executions, self.low_app_execution_threshold, self.med_app_execution_threshold, self.high_app_execution_threshold)")],
         modifies=[])
contract(f"{SO}::ApplicationObservation.observe", props=["C02", "C09"],
         requires=["app_default_wf(self)", "implies(not absent(state, self.where), isinstance(leaf(state, self.where), dict)"
                   " and app_state_wf(cast(leaf(state, self.where), 'Dict[str, Any]')))"],
         ensures=[("member_of_declared_space", "member(self.space, result)"),
                  ("absent_reads_default", "implies(absent(state, self.where), result['operating_status'] == 0 and result['health_status'] == 0 and result['num_executions'] == 0)"),
                  ("operating_state_encoded", "implies(not absent(state, self.where), result['operating_status'] == cast(leaf(state, self.where), 'Dict[str, Any]')['operating_state'])"),
                  ("visible_health_iff_scan_required", "implies(not absent(state, self.where), result['health_status'] == (cast(leaf(state, self.where), 'Dict[str, Any]')['health_state_visible']"
                                                       " if self.applications_requires_scan else cast(leaf(state, self.where), 'Dict[str, Any]')['health_state_actual']))"),
                  ("executions_binned", "implies(not absent(state, self.where), result['num_executions'] == bin4(cast(leaf(state, self.where), 'Dict[str, Any]')['num_executions'],"
                                        " self.low_app_execution_threshold, self.med_app_execution_threshold, self.high_app_execution_threshold))")],
         modifies=[], allocates=True)

# ---- files ------------------------------------------------------------------------------------------------------------------------
FSO = f"{OBS}/file_system_observations.py"
attr_types({"FileObservation.where": "Optional[List[str]]", "FileObservation.default_observation": "Dict[str, int]",
            "FileObservation.low_file_access_threshold": "int", "FileObservation.med_file_access_threshold": "int", "FileObservation.high_file_access_threshold": "int"})
spec("file_state_wf(d)", "'health_status' in d and is_enum_value(d['health_status'], FileSystemItemHealthStatus)"
                         " and 'visible_status' in d and is_enum_value(d['visible_status'], FileSystemItemHealthStatus)"
                         " and 'num_access' in d and isinstance(d['num_access'], int)")
spec("file_default_wf(o)", "'health_status' in o.default_observation and o.default_observation['health_status'] == 0"
                           " and (len(o.default_observation) == 2 and 'num_access' in o.default_observation and o.default_observation['num_access'] == 0"
                           "      if o.include_num_access else len(o.default_observation) == 1)")
contract(f"{FSO}::FileObservation._categorise_num_access", props=["C02", "C09"],
         ensures=[("four_bins", "0 <= result and result <= 3"),
                  ("documented_bins", "result == bin4(num_access, self.low_file_access_threshold, self.med_file_access_threshold, self.high_file_access_threshold)")],
         modifies=[])
contract(f"{FSO}::FileObservation.observe", props=["C02", "C09"],
         requires=["file_default_wf(self)", "implies(not absent(state, self.where), isinstance(leaf(state, self.where), dict)"
                   " and file_state_wf(cast(leaf(state, self.where), 'Dict[str, Any]')))"],
         ensures=[("member_of_declared_space", "member(self.space, result)"),
                  ("absent_reads_default", "implies(absent(state, self.where), result['health_status'] == 0)"),
                  ("visible_health_iff_scan_required", "implies(not absent(state, self.where), result['health_status'] == (cast(leaf(state, self.where), 'Dict[str, Any]')['visible_status']"
                                                       " if self.file_system_requires_scan else cast(leaf(state, self.where), 'Dict[str, Any]')['health_status']))"),
                  ("accesses_binned", "implies(not absent(state, self.where) and self.include_num_access, result['num_access'] == bin4(cast(leaf(state, self.where), 'Dict[str, Any]')['num_access'],"
                                      " self.low_file_access_threshold, self.med_file_access_threshold, self.high_file_access_threshold))")],
         modifies=[], allocates=True)

# ---- ports / network interfaces ------------------------------------------------------------------------------------------------------
NO = f"{OBS}/nic_observations.py"
attr_types({"PortObservation.where": "List[str]", "PortObservation.default_observation": "Dict[str, int]"})
spec("port_default_wf(o)", "len(o.default_observation) == 1 and 'operating_status' in o.default_observation and o.default_observation['operating_status'] == 0")
contract(f"{NO}::PortObservation.observe", props=["C02", "C09"],
         requires=["port_default_wf(self)", "implies(not absent(state, self.where), isinstance(leaf(state, self.where), dict)"
                   " and 'enabled' in cast(leaf(state, self.where), 'Dict[str, Any]') and isinstance(cast(leaf(state, self.where), 'Dict[str, Any]')['enabled'], bool))"],
         ensures=[("member_of_declared_space", "member(self.space, result)"),
                  ("absent_reads_default", "implies(absent(state, self.where), result['operating_status'] == 0)"),
                  ("enabled_is_1_disabled_is_2", "implies(not absent(state, self.where), result['operating_status'] == (1 if cast(leaf(state, self.where), 'Dict[str, Any]')['enabled'] else 2))")],
         modifies=[], allocates=True)
attr_types({"NICObservation.low_nmne_threshold": "int", "NICObservation.med_nmne_threshold": "int", "NICObservation.high_nmne_threshold": "int"})
contract(f"{NO}::NICObservation._categorise_mne_count", props=["C02", "C09"],
         ensures=[("four_bins", "0 <= result and result <= 3"),
                  ("documented_bins", "result == bin4(nmne_count, self.low_nmne_threshold, self.med_nmne_threshold, self.high_nmne_threshold)")],
         modifies=[])
# traffic band: 0 for no traffic, otherwise 1..10 by tenths of the interface speed -- for EVERY amount of traffic, also above the nominal speed
contract(f"{NO}::NICObservation._categorise_traffic", props=["C02"], types={"nic_state": "Dict[str, Any]", "traffic_value": "float"},
         requires=["traffic_value >= 0", "'speed' in nic_state", "isinstance(nic_state['speed'], int) or isinstance(nic_state['speed'], float)", "nic_state['speed'] > 0"],
         ensures=[("within_declared_band", "0 <= result and result <= 10"),
                  ("zero_iff_no_traffic", "(result == 0) == (traffic_value == 0)")],
         modifies=[])

# ---- ground truth side: what describe_state writes for one component (the entries the observations read) -------------------------------
SIM = "src/primaite/simulator"
contract(f"{SIM}/core.py::SimComponent.describe_state", props=["C09"], ensures=[("fresh_dict", "fresh(result)"), ("uuid", "result['uuid'] == self.uuid")],
         modifies=[], allocates=True)
contract(f"{SIM}/system/software.py::Software.describe_state", props=["C09", "C02"],
         ensures=[("fresh_dict", "fresh(result)"),
                  ("true_and_visible_health", "'health_state_actual' in result and 'health_state_visible' in result"
                                              " and result['health_state_actual'] == self.health_state_actual.value and result['health_state_visible'] == self.health_state_visible.value"),
                  ("health_values_are_enum_values", "is_enum_value(result['health_state_actual'], SoftwareHealthState) and is_enum_value(result['health_state_visible'], SoftwareHealthState)")],
         modifies=[], allocates=True)
contract(f"{SIM}/system/software.py::IOSoftware.describe_state", props=["C09", "C02"],
         ensures=[("fresh_dict", "fresh(result)"),
                  ("true_and_visible_health", "'health_state_actual' in result and 'health_state_visible' in result"
                                              " and result['health_state_actual'] == self.health_state_actual.value and result['health_state_visible'] == self.health_state_visible.value"),
                  ("health_values_are_enum_values", "is_enum_value(result['health_state_actual'], SoftwareHealthState) and is_enum_value(result['health_state_visible'], SoftwareHealthState)")],
         modifies=[], allocates=True)
contract(f"{SIM}/system/services/service.py::Service.describe_state", props=["C09", "C02"],
         ensures=[("what_the_observation_reads", "svc_state_wf(result)"),
                  ("ground_truth", "result['operating_state'] == self.operating_state.value and result['health_state_actual'] == self.health_state_actual.value"
                                   " and result['health_state_visible'] == self.health_state_visible.value")],
         modifies=[], allocates=True)
contract(f"{SIM}/system/applications/application.py::Application.describe_state", props=["C09", "C02"],
         ensures=[("what_the_observation_reads", "app_state_wf(result)"),
                  ("ground_truth", "result['operating_state'] == self.operating_state.value and result['health_state_actual'] == self.health_state_actual.value"
                                   " and result['health_state_visible'] == self.health_state_visible.value and result['num_executions'] == self.num_executions")],
         modifies=[], allocates=True)
contract(f"{SIM}/file_system/file_system_item_abc.py::FileSystemItemABC.describe_state", props=["C09", "C02"],
         ensures=[("fresh_dict", "fresh(result)"),
                  ("ground_truth", "'health_status' in result and 'visible_status' in result"
                                   " and result['health_status'] == self.health_status.value and result['visible_status'] == self.visible_health_status.value"),
                  ("health_values_are_enum_values", "is_enum_value(result['health_status'], FileSystemItemHealthStatus) and is_enum_value(result['visible_status'], FileSystemItemHealthStatus)")],
         modifies=[], allocates=True)
contract(f"{SIM}/file_system/file.py::File.describe_state", props=["C09", "C02"],
         ensures=[("what_the_observation_reads", "file_state_wf(result)"),
                  ("ground_truth", "result['health_status'] == self.health_status.value and result['visible_status'] == self.visible_health_status.value"
                                   " and result['num_access'] == self.num_access")],
         modifies=[], allocates=True)

# ---- folders: the health leaf (the FILES part is a composite of FileObservation leaves, see the bounded composites check) ---------------
attr_types({"FolderObservation.where": "List[str]", "FolderObservation.default_observation": "Dict[str, Any]", "FolderObservation.cached_obs": "Dict[str, Any]",
            "FolderObservation.files": "List[FileObservation]"})
spec("folder_state_wf(d)", "'health_status' in d and is_enum_value(d['health_status'], FileSystemItemHealthStatus)"
                           " and 'visible_status' in d and is_enum_value(d['visible_status'], FileSystemItemHealthStatus)"
                           " and 'scanned_this_step' in d and isinstance(d['scanned_this_step'], bool)")
dispatch_contract(f"{OBS}/observations.py::AbstractObservation.observe", ensures=[], modifies=["heap"], allocates=True)
contract(f"{FSO}::FolderObservation.observe", props=["C09", "C02"],
         requires=["'health_status' in self.default_observation and self.default_observation['health_status'] == 0",
                   "'health_status' in self.cached_obs and is_enum_value(self.cached_obs['health_status'], FileSystemItemHealthStatus)",
                   "implies(not absent(state, self.where), isinstance(leaf(state, self.where), dict)"
                   " and folder_state_wf(cast(leaf(state, self.where), 'Dict[str, Any]')))",
                   # history (ghost) precondition: between scans the observation remembers the last-scanned status. It is
                   # established by `remembers_what_it_showed` below in the step a scan completes and kept by every other
                   # step, because the folder's visible status changes only when a scan completes (C14, proved there)
                   "implies(not absent(state, self.where) and self.file_system_requires_scan and not cast(leaf(state, self.where), 'Dict[str, Any]')['scanned_this_step'],"
                   " self.cached_obs['health_status'] == cast(leaf(state, self.where), 'Dict[str, Any]')['visible_status'])"],
         ensures=[("health_within_declared_range", "0 <= result['health_status'] and result['health_status'] < 6"),
                  ("absent_reads_default", "implies(absent(state, self.where), result['health_status'] == 0)"),
                  # C09: "the last-scanned ('visible') value exactly when the scenario says scanning is required and the true value otherwise"
                  ("visible_health_iff_scan_required", "implies(not absent(state, self.where), result['health_status'] == (cast(leaf(state, self.where), 'Dict[str, Any]')['visible_status']"
                                                       " if self.file_system_requires_scan else cast(leaf(state, self.where), 'Dict[str, Any]')['health_status']))"),
                  ("remembers_what_it_showed", "implies(not absent(state, self.where) and self.file_system_requires_scan,"
                                               " 'health_status' in self.cached_obs and self.cached_obs['health_status'] == result['health_status'])")],
         modifies=["self.cached_obs"], allocates=True)

# ---- composites (ACL slots, NIC traffic/NMNE trees, folders with files, hosts, links lists, router/firewall ports) ---------------------
# Their observe()/space pairs build nested dictionaries by comprehension over configured lists; a deductive attempt on
# ACLObservation.observe (loop invariant over a dict of nine-entry dicts) did not discharge within the budget (z3 timeout on the
# preservation VC, 4 min), so these are covered by a BOUNDED stand-in on the real classes with the real gymnasium `contains`:
from pyvc.contracts import native_bounded  # noqa: E402
native_bounded("C02", "observation-composites", "bounded/obs_composites.py",
               "the shipped data_manipulation scenario (7 hosts, 1 router, 10 links); one component varied at a time over every enum member, counters 0..12, traffic up to 10x speed, ACL rules from {absent, listed, unlisted} values per field at each of the 10 positions",
               "exhaustive small-scope enumeration of state dictionaries against the real observation classes: observe() raises nothing and space.contains(obs)")
native_bounded("C09", "observation-ground-truth", "bounded/obs_truth.py",
               "same sweep as observation-composites",
               "selected leaves (node power, service/application state and visible-vs-true health, folder/file health, NIC status, user sessions) compared with the simulator objects themselves after every change")

# ---- link load band (C09: "utilisation bands" = tenths... of the documented table: 0 = no load, otherwise band k for (k-1)/9 <= load/bandwidth < k/9) ----
contract("src/primaite/game/agent/observations/link_observation.py::LinkObservation.observe#band", props=["C09", "C02"],
         region=("block", {"start": "bandwidth = link_state[", "count": 3}),
         types={"self": "LinkObservation", "link_state": "Dict[str, Any]"},
         requires=["'bandwidth' in link_state and 'current_load' in link_state",
                   # Link.describe_state reports both as floats
                   "isinstance(link_state['bandwidth'], float) and link_state['bandwidth'] > 0",
                   "isinstance(link_state['current_load'], float) and link_state['current_load'] >= 0"],
         ensures=[("zero_iff_idle", "(utilisation_category == 0) == (link_state['current_load'] == 0)"),
                  ("documented_band", "implies(link_state['current_load'] > 0, utilisation_category >= 1"
                                      " and utilisation_category - 1 <= 9 * (link_state['current_load'] / link_state['bandwidth'])"
                                      " and 9 * (link_state['current_load'] / link_state['bandwidth']) < utilisation_category)")],
         modifies=[], allocates=True)

# ---- ACL rules: what a rule reports is what it holds (port 0 is a port, not "any") ------------------------------------------------------------
contract("src/primaite/simulator/network/hardware/nodes/network/router.py::ACLRule.describe_state", props=["C09"],
         ensures=[("ports_reported_as_held", "result['src_port'] == self.src_port and result['dst_port'] == self.dst_port"),
                  ("action_and_count", "result['action'] == self.action.value and result['match_count'] == self.match_count")],
         modifies=[], allocates=True)

# ---- the host observation hands its scan options down to its parts (C09: "visible value exactly when the scenario says scanning is required") --
contract("src/primaite/game/agent/observations/host_observations.py::HostObservation.from_config#applications", props=["C09"],
         region=("block", {"start": "for application_config in config.applications:", "count": 1}),
         types={"config": "HostObservation.ConfigSchema"},
         ensures=[("each_application_gets_the_applications_option",
                   "forall(j, 0, len(config.applications), config.applications[j].applications_requires_scan == config.applications_requires_scan)")],
         modifies=["ApplicationObservation.ConfigSchema.applications_requires_scan", "ApplicationObservation.ConfigSchema.thresholds"], allocates=True,
         loops={3: {"inv": [("done_so_far", "forall(j, 0, _i, config.applications[j].applications_requires_scan == config.applications_requires_scan)")],
                    "modifies": ["ApplicationObservation.ConfigSchema.applications_requires_scan", "ApplicationObservation.ConfigSchema.thresholds"]}})
# (when the loop body is wrong the preservation VC is satisfiable only with a quantified model, which the solver does not produce; the
# bounded twin, with the loop unrolled, decides such a change)
contract("src/primaite/game/agent/observations/host_observations.py::HostObservation.from_config#applications_bounded", props=["C09"], bounded=2,
         region=("block", {"start": "for application_config in config.applications:", "count": 1}),
         types={"config": "HostObservation.ConfigSchema"},
         ensures=[("each_application_gets_the_applications_option",
                   "forall(j, 0, len(config.applications), config.applications[j].applications_requires_scan == config.applications_requires_scan)")],
         modifies=["ApplicationObservation.ConfigSchema.applications_requires_scan", "ApplicationObservation.ConfigSchema.thresholds"], allocates=True)
