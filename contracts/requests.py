"""C05 / C11 (and the dispatcher part of C01): the request tree."""
from pyvc.contracts import contract, spec, inline, ufun, attr_types

C = "src/primaite/simulator/core.py"

# validator_ok(v, s, ctx, ep): verdict of validator object v on request content s with context ctx in the heap state
# numbered ep.  Validators are pure (proved per concrete class below), so their verdict is a function of these.
ufun("validator_ok", 4, "bool")
# resolve(rm, s, ctx, ep): where a request ends up, per the property statement:
#   0 = unreachable (first element names nothing registered here)
#   1 = failure     (the entry's permission rule refuses it)
#   2 = handler     (reaches a handler: this level's, or -- through a child request manager -- a deeper one)
ufun("resolve", 4, "int")

spec("resolve_def(rm, request, context)", """
    resolve(rm, seq(request), seq(context), epoch()) == (
        0 if len(request) == 0 or request[0] not in rm.request_types else (
        1 if not validator_ok(rm.request_types[request[0]].validator, seq(request[1:]), seq(context), epoch()) else (
        resolve(rm.request_types[request[0]].func, seq(request[1:]), seq(context), epoch())
            if isinstance(rm.request_types[request[0]].func, RequestManager) else 2)))
""")

# RequestManager.request_types is annotated Dict[str, RequestType], but the node's interface manager is keyed by interface NUMBERS
# (Node.connect_nic: self._nic_request_manager.add_request(new_nic_num, ...)): the keys are typed as what the code really stores
attr_types({"RequestManager.request_types": "Dict[Any, RequestType]"})
contract(f"{C}::RequestPermissionValidator.__call__", verify=False,
         note="abstract method: base contract assumed here; every concrete validator is proved pure below",
         ensures=["result == validator_ok(self, seq(request), seq(context), epoch())"], modifies=[])

contract(f"{C}::RequestManager.check_valid",
         props=["C11"],
         axioms=["resolve_def(self, request, context)"],
         ensures=[("eq_resolve", "result == (resolve(self, seq(request), seq(context), epoch()) == 2)")],
         modifies=[], allocates=True)

# RequestManager.__call__: answers 'unreachable' / 'failure' exactly when resolve says so, and then nothing that
# existed before the call has been written and no handler ran; otherwise the handler's answer is returned.
contract(f"{C}::RequestManager.__call__",
         props=["C05", "C11", "C01"],
         axioms=["resolve_def(self, request, context)"],
         ensures=[("unreachable", "implies(old(resolve(self, seq(request), seq(context), epoch())) == 0,"
                                  " result.status == 'unreachable' and unchanged() and n_events() == old(n_events()))"),
                  ("failure", "implies(old(resolve(self, seq(request), seq(context), epoch())) == 1,"
                              " result.status == 'failure' and unchanged() and n_events() == old(n_events()))"),
                  ("refused_never_success", "implies(old(resolve(self, seq(request), seq(context), epoch())) != 2, result.status != 'success')")],
         modifies=["heap"], allocates=True, dyn_classes=["RequestManager"], dyn_result="RequestResponse")

contract(f"{C}::RequestPermissionValidator.fail_message", verify=False,
         note="abstract property: a message string, no effect (concrete overrides are string-returning one-liners)",
         ensures=[], modifies=[])

# ---- registration -----------------------------------------------------------------------------------------------------
contract(f"{C}::RequestManager.add_request", props=["C05", "C11"],
         ensures=[("registered", "name in self.request_types and self.request_types[name] is request_type"),
                  ("others_kept", "len(self.request_types) == old(len(self.request_types)) + (0 if old(name in self.request_types) else 1)")],
         modifies=["self.request_types{*}"])
contract(f"{C}::RequestManager.remove_request", props=["C05", "C11"],
         ensures=[("unregistered", "name not in self.request_types"),
                  ("one_fewer", "len(self.request_types) == old(len(self.request_types)) - 1")],
         raises={"RuntimeError": "name not in self.request_types"},
         raises_ensures=[("nothing_changed", "len(self.request_types) == old(len(self.request_types))")],
         modifies=["self.request_types{*}"])
contract(f"{C}::AllowAllValidator.__call__", props=["C05", "C11"], ensures=[("allows", "result == True")], modifies=[])
# a combined rule passes exactly when every member rule passes
contract(f"{C}::_CombinedValidator.__call__", props=["C05", "C11"],
         ensures=[("conjunction", "result == forall(j, 0, len(self.validators), validator_ok(self.validators[j], seq(request), seq(context), epoch()))")],
         modifies=[])

# ---- the mask itself (C11: "for every entry of the action map (not only the one executed)") -------------------------
from pyvc.contracts import attr_types  # noqa: E402
G = "src/primaite/game/game.py"
AM = "src/primaite/game/agent/actions/manager.py"
attr_types({"Simulation._request_manager": "RequestManager", "SimComponent._request_manager": "RequestManager"})
# the request an action map entry stands for: a function of the action manager and the entry (form_request is pure)
ufun("form_req", 3, "any")
contract(f"{AM}::ActionManager.form_request", verify=False,
         note="pure translation of an action map entry into a request (the per-action templates are straight-line list builders)",
         ensures=["seq(result) == form_req(self, action_identifier, action_options)", "fresh(result)"], modifies=[], allocates=True)
contract(f"{G}::PrimaiteGame.action_mask", props=["C11"], bounded=3,
         # ActionManager.ConfigSchema.consecutive_action_nums: the keys of an action map are exactly 0..N-1
         requires=["agent_name in self.agents",
                   "forall(j, 0, len(self.agents[agent_name].action_manager.action_map),"
                   " 0 <= dict_key(self.agents[agent_name].action_manager.action_map, j)"
                   " and dict_key(self.agents[agent_name].action_manager.action_map, j) < len(self.agents[agent_name].action_manager.action_map))"],
         ensures=[("one_bit_per_action", "len(result) == len(self.agents[agent_name].action_manager.action_map)"),
                  ("bit_i_is_action_i", "forall(j, 0, len(self.agents[agent_name].action_manager.action_map),"
                                        " result[dict_key(self.agents[agent_name].action_manager.action_map, j)] == (resolve(self.simulation._request_manager,"
                                        " form_req(self.agents[agent_name].action_manager, dict_val(self.agents[agent_name].action_manager.action_map, j)[0],"
                                        " dict_val(self.agents[agent_name].action_manager.action_map, j)[1]), seq({}), epoch()) == 2))")],
         modifies=[], allocates=True,
         loops={0: {"inv": [("length", "len(mask) == len(agent.action_manager.action_map) and fresh(mask)"),
                            ("done_so_far", "forall(j, 0, _i, mask[dict_key(agent.action_manager.action_map, j)] == (resolve(self.simulation._request_manager,"
                                            " form_req(agent.action_manager, dict_val(agent.action_manager.action_map, j)[0], dict_val(agent.action_manager.action_map, j)[1]),"
                                            " seq({}), epoch()) == 2))")],
                    "modifies": ["mask[*]"]}})

# ---- the mask is read at the start of a step and the action applied after pre_timestep: nothing in between changes what the rules read --------
from pyvc.contracts import scan  # noqa: E402
from pyvc import scans as _scans  # noqa: E402
scan("C11", "mask-window", lambda: _scans.pre_timestep_keeps_rule_state())

# ---- the environment's mask is the mask of the CURRENT game (a reset builds a new game each episode) ------------------------------------------
ENVF = "src/primaite/session/environment.py"
from pyvc.contracts import dispatch_contract  # noqa: E402
dispatch_contract("src/primaite/game/game.py::PrimaiteGame.action_mask", ensures=[], modifies=[],
                  emits=[("mask", ["self", "agent_name"])], exact_events=True, allocates=True)
contract(f"{ENVF}::PrimaiteGymEnv.action_masks", props=["C11"], use_dispatch=["action_mask"],
         requires=["self._agent_name in self.game.rl_agents"],
         ensures=[("mask_of_the_current_game", "implies(self.game.rl_agents[self._agent_name].config.agent_settings.action_masking,"
                                               " n_events() == old(n_events()) + 1 and event_kind(old(n_events())) == ev('mask')"
                                               " and event_arg(old(n_events()), 0) is self.game and event_arg(old(n_events()), 1) == self._agent_name)")],
         modifies=[], allocates=True)

# ---- actions are routed: "a request produced from any agent action whose parameters name existing components is never 'unreachable'" -------
# The request tree is assembled at run time from every component's _init_request_manager; which verb an action class sends and which routes
# the addressed component registered meet only in a built game, so this clause is covered by a BOUNDED native sweep (never counted as proved):
from pyvc.contracts import native_bounded  # noqa: E402
native_bounded("C05", "action-routes", "bounded/action_routes.py",
               "every registered action type x two nodes of every (node class, installed software) signature of the shipped data_manipulation and uc7 scenarios x up to 12 parameter choices naming components that exist on the node",
               "the real form_request and the real Simulation.apply_request on a forked copy of the built game: the answer is not 'unreachable' whenever every component named on the request path exists")
