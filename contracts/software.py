"""C13 (and the software half of C12): services and applications follow their lifecycle."""
from pyvc.contracts import contract, spec, inline, attr_types, writers, dispatch_contract

SV = "src/primaite/simulator/system/services/service.py"
AP = "src/primaite/simulator/system/applications/application.py"
SW = "src/primaite/simulator/system/software.py"

# SoftwareManager is a plain class: attribute types declared here are checked against nothing but their use
attr_types({"SoftwareManager.node": "Node", "SoftwareManager.software": "Dict[str, IOSoftware]",
            "SoftwareManager.port_protocol_mapping": "Dict[Any, IOSoftware]", "SoftwareManager.session_manager": "SessionManager",
            "SoftwareManager._software_class_to_name_map": "Dict[Any, str]", "SoftwareManager.file_system": "FileSystem",
            "SoftwareManager.sys_log": "SysLog", "SoftwareManager.dns_server": "Optional[IPv4Address]"})

# the node hosting a piece of software is powered on (software not yet attached to a node counts as "on", as in the code)
spec("host_on(sw)", "sw.software_manager is None or sw.software_manager.node.operating_state == NodeOperatingState.ON")

inline(f"{SW}::Software.set_health_state")
# abstract-with-body: only ever reached through super()._can_perform_action()
inline(f"{SW}::IOSoftware._can_perform_action")

S_MOD = ["self.operating_state", "self.health_state_actual", "self.restart_countdown"]


def svc(method, src_states, dst, needs_host=False, extra_ens=(), ret_true_always=False):
    cond = " or ".join(f"old(self.operating_state) == ServiceOperatingState.{s}" for s in src_states) if src_states else "True"
    if needs_host:
        cond = f"old(host_on(self)) and ({cond})"
    contract(f"{SV}::Service.{method}",
             props=["C13", "C12"],
             ensures=[("transition", f"self.operating_state == (ServiceOperatingState.{dst} if ({cond}) else old(self.operating_state))"),
                      ("accepted_iff", f"result == ({cond})" if not ret_true_always else "result == True")] + list(extra_ens),
             modifies=S_MOD)


# documented transitions (docs/source/simulation_components/system/services: start, stop, pause, resume, restart, disable, enable)
svc("start", ["STOPPED"], "RUNNING", needs_host=True,
    extra_ens=[("health", "self.health_state_actual == (SoftwareHealthState.GOOD if (old(host_on(self)) and old(self.operating_state) == ServiceOperatingState.STOPPED"
                          " and old(self.health_state_actual) == SoftwareHealthState.UNUSED) else old(self.health_state_actual))")])
svc("stop", ["RUNNING", "PAUSED"], "STOPPED")
svc("pause", ["RUNNING"], "PAUSED")
svc("resume", ["PAUSED"], "RUNNING")
svc("restart", ["RUNNING", "PAUSED"], "RESTARTING",
    extra_ens=[("countdown", "implies(result, self.restart_countdown == self.restart_duration)")])
svc("disable", [], "DISABLED", ret_true_always=True)
svc("enable", ["DISABLED"], "STOPPED")

contract(f"{SV}::Service._can_perform_action",
         props=["C13", "C12"],
         ensures=[("only_running_on_live_host", "result == (host_on(self) and self.operating_state == ServiceOperatingState.RUNNING)")],
         modifies=[])

contract(f"{SV}::Service._StateValidator.__call__",
         props=["C13", "C11", "C05"],
         ensures=[("rule", "result == (self.service.operating_state == self.state)")], modifies=[])

# restart: RESTARTING is left by a tick, when the countdown has run out
contract(f"{SV}::Service.apply_timestep",
         props=["C13"],
         requires=["implies(self.operating_state == ServiceOperatingState.RESTARTING, self.restart_countdown is not None)"],
         ensures=[("restart_completes", "self.operating_state == (ServiceOperatingState.RUNNING if old(self.operating_state) == ServiceOperatingState.RESTARTING"
                                        " and old(self.restart_countdown) <= 0 else old(self.operating_state))"),
                  ("countdown_ticks", "implies(old(self.operating_state) == ServiceOperatingState.RESTARTING, self.restart_countdown == old(self.restart_countdown) - 1)")],
         modifies=["self.operating_state", "self.restart_countdown", "self.health_state_actual", "self._fixing_countdown", "self.fixing_count"],
         inline=[f"{SW}::Software.apply_timestep", f"{SW}::Software._update_fix_status"])

# ---- applications ------------------------------------------------------------------------------------------------
A_MOD = ["self.operating_state", "self.health_state_actual", "self.install_countdown"]
contract(f"{AP}::Application.run",
         props=["C13", "C12"],
         ensures=[("transition", "self.operating_state == (ApplicationOperatingState.RUNNING if old(host_on(self)) and"
                                 " old(self.operating_state) == ApplicationOperatingState.CLOSED else old(self.operating_state))")],
         modifies=A_MOD)
contract(f"{AP}::Application.close",
         props=["C13", "C12"],
         ensures=[("transition", "self.operating_state == (ApplicationOperatingState.CLOSED if old(self.operating_state) == ApplicationOperatingState.RUNNING"
                                 " else old(self.operating_state))")],
         modifies=A_MOD)
contract(f"{AP}::Application.install",
         props=["C13"],
         ensures=[("transition", "self.operating_state == (ApplicationOperatingState.INSTALLING if old(self.operating_state) == ApplicationOperatingState.CLOSED"
                                 " else old(self.operating_state))"),
                  ("countdown", "implies(old(self.operating_state) == ApplicationOperatingState.CLOSED, self.install_countdown == self.install_duration)")],
         modifies=A_MOD, inline=[f"{SW}::Software.install"])
contract(f"{AP}::Application._can_perform_action",
         props=["C13", "C12"],
         ensures=[("only_running_on_live_host", "result == (host_on(self) and self.operating_state == ApplicationOperatingState.RUNNING)")],
         modifies=[])
contract(f"{AP}::Application._StateValidator.__call__",
         props=["C13", "C11", "C05"],
         ensures=[("rule", "result == (self.application.operating_state == self.state)")], modifies=[])
contract(f"{AP}::Application.apply_timestep",
         props=["C13"],
         requires=["implies(self.operating_state == ApplicationOperatingState.INSTALLING, self.install_countdown is not None)"],
         ensures=[("install_completes", "self.operating_state == (ApplicationOperatingState.RUNNING if old(self.operating_state) == ApplicationOperatingState.INSTALLING"
                                        " and old(self.install_countdown) <= 1 else old(self.operating_state))"),
                  ("countdown_ticks", "implies(old(self.operating_state) == ApplicationOperatingState.INSTALLING and old(self.install_countdown) > 1,"
                                      " self.install_countdown == old(self.install_countdown) - 1)")],
         modifies=["self.operating_state", "self.install_countdown", "self.health_state_actual", "self._fixing_countdown", "self.fixing_count"],
         inline=[f"{SW}::Software.apply_timestep", f"{SW}::Software._update_fix_status"])
contract(f"{AP}::Application.pre_timestep",
         props=["C13"],
         ensures=[("executions_reset", "self.num_executions == 0")], modifies=["self.num_executions"],
         inline=[f"{SW}::Software.pre_timestep"])

# operating_state of software is written only by the lifecycle methods (field-writer frame)
writers("C13", "operating_state",
        [f"{SV}::Service.start", f"{SV}::Service.stop", f"{SV}::Service.pause", f"{SV}::Service.resume", f"{SV}::Service.restart",
         f"{SV}::Service.disable", f"{SV}::Service.enable", f"{SV}::Service.apply_timestep",
         f"{AP}::Application.run", f"{AP}::Application.close", f"{AP}::Application.install", f"{AP}::Application.apply_timestep",
         # the node's own power state shares the attribute name (C12 covers these writers)
         "src/primaite/simulator/network/hardware/base.py::Node.power_on", "src/primaite/simulator/network/hardware/base.py::Node.power_off",
         "src/primaite/simulator/network/hardware/base.py::Node.apply_timestep",
         # construction / scenario loading: the configured initial state
         "src/primaite/simulator/network/hardware/base.py::Node.__init__",
         "src/primaite/simulator/network/hardware/nodes/network/router.py::Router.from_config",
         "src/primaite/simulator/network/hardware/nodes/network/wireless_router.py::WirelessRouter.from_config",
         "src/primaite/simulator/system/core/software_manager.py::SoftwareManager.install"],
        why="operating state changes only along the documented transitions")

# ---- installing / uninstalling keeps the node's registries in agreement (C13; C05: no route to software that is gone) ----
SWM = "src/primaite/simulator/system/core/software_manager.py"
attr_types({"Node._application_request_manager": "RequestManager", "Node._service_request_manager": "RequestManager",
            "Node._nic_request_manager": "RequestManager", "Node._process_request_manager": "RequestManager",
            "Node._os_request_manager": "RequestManager", "Node._software_request_manager": "RequestManager",
            "Node._application_manager": "RequestManager"})
# what a piece of software does when told it is being uninstalled (overrides close connections, send packets ...):
# anything, except touching the registries that SoftwareManager.uninstall is about to update
dispatch_contract(f"{SW}::Software.uninstall",
                  ensures=[], modifies=["heap"], allocates=True,
                  preserves=["SoftwareManager.software", "SoftwareManager.node", "SoftwareManager.port_protocol_mapping",
                             "SoftwareManager._software_class_to_name_map", "SoftwareManager.sys_log",
                             "Node.applications", "Node.services", "Node._application_request_manager", "Node._service_request_manager",
                             "RequestManager.request_types", "Software.name", "SimComponent.uuid",
                             "self.software_manager.software{*}", "self.software_manager.node.applications{*}",
                             "self.software_manager.node.services{*}", "self.software_manager.port_protocol_mapping{*}",
                             "self.software_manager._software_class_to_name_map{*}",
                             "self.software_manager.node._application_request_manager.request_types{*}",
                             "self.software_manager.node._service_request_manager.request_types{*}"])
# registries agree for one installed piece of software
spec("registered(sm, name)", """
    sm.software[name].name == name and sm.software[name].software_manager is sm
    and implies(isinstance(sm.software[name], Application), sm.software[name].uuid in sm.node.applications
                and name in sm.node._application_request_manager.request_types)
    and implies(isinstance(sm.software[name], Service), sm.software[name].uuid in sm.node.services
                and name in sm.node._service_request_manager.request_types)
""")
contract(f"{SWM}::SoftwareManager.uninstall", props=["C13", "C05"],
         # scope: uninstalling an *application* (the only uninstall reachable from agent actions); the service branch,
         # with its second uninstall() call-back, is left unverified
         requires=["implies(software_name in self.software, registered(self, software_name) and isinstance(self.software[software_name], Application))",
                   "self.node._application_request_manager is not self.node._service_request_manager"],
         ensures=[("gone_from_software", "software_name not in self.software"),
                  # "installing or uninstalling software keeps the node's software list, its request routes ... in agreement"
                  ("application_route_removed", "implies(old(software_name in self.software and isinstance(self.software[software_name], Application)),"
                                                " software_name not in self.node._application_request_manager.request_types"
                                                " and old(self.software[software_name].uuid) not in self.node.applications)"),
                  ("service_route_removed", "implies(old(software_name in self.software and isinstance(self.software[software_name], Service)),"
                                            " software_name not in self.node._service_request_manager.request_types"
                                            " and old(self.software[software_name].uuid) not in self.node.services)"),
                  ("unknown_name_changes_nothing", "implies(not old(software_name in self.software), unchanged())")],
         modifies=["heap"], allocates=True,
         # both loops leave (break) right after their only modification, so no iteration starts from a modified state
         loops={0: {"inv": [], "modifies": []}, 1: {"inv": [], "modifies": []}})
inline("src/primaite/simulator/core.py::SimComponent.parent")
# "... its open ports ... in agreement": the port table no longer has an entry for the uninstalled software.  In proof mode the two
# search loops with this clause as invariant ran out of the time budget (9 min, undecided), so it is a bounded stand-in (K = 2).
contract(f"{SWM}::SoftwareManager.uninstall#port_table", props=["C13"], bounded=2,
         requires=["implies(software_name in self.software, registered(self, software_name) and isinstance(self.software[software_name], Application))",
                   "self.node._application_request_manager is not self.node._service_request_manager",
                   # install() files a piece of software under one key of the port table
                   "forall(a, 0, len(self.port_protocol_mapping), forall(b, 0, len(self.port_protocol_mapping), implies(a != b,"
                   " dict_val(self.port_protocol_mapping, a).name != dict_val(self.port_protocol_mapping, b).name)))",
                   # ... and only software that is installed has an entry
                   "forall(a, 0, len(self.port_protocol_mapping), dict_val(self.port_protocol_mapping, a).name in self.software)"],
         ensures=[("port_entry_removed", "forall(j, 0, len(self.port_protocol_mapping), dict_val(self.port_protocol_mapping, j).name != software_name)"),
                  ("other_port_entries_stay", "len(self.port_protocol_mapping) >= old(len(self.port_protocol_mapping)) - 1")],
         modifies=["heap"], allocates=True)

# ---- open ports ("software that is not running never ... keeps its port open") ------------------------------------------
spec("sw_running(sw)", "sw.operating_state == ApplicationOperatingState.RUNNING or sw.operating_state == ServiceOperatingState.RUNNING")
contract(f"{SWM}::SoftwareManager.get_open_ports", props=["C13"], bounded=2,
         ensures=[("only_ports_of_running_software",
                   "forall(i, 0, len(result), exists(j, 0, len(self.port_protocol_mapping), sw_running(dict_val(self.port_protocol_mapping, j))"
                   " and (result[i] == dict_val(self.port_protocol_mapping, j).port or result[i] in dict_val(self.port_protocol_mapping, j).listen_on_ports)))"),
                  ("every_running_port_open",
                   "forall(j, 0, len(self.port_protocol_mapping), implies(sw_running(dict_val(self.port_protocol_mapping, j)),"
                   " dict_val(self.port_protocol_mapping, j).port in result))")],
         modifies=[], allocates=True)

# ---- every request of a service / application carries its operating-state rule ("only running software works") ------------------------------
from pyvc.contracts import scan  # noqa: E402
from pyvc import scans as _scans  # noqa: E402
scan("C13", "service-routes-gated", lambda: _scans.routes_gated("Service", {"Service:disable": "disabling is allowed in every state (Service.disable has no source-state condition, proved above)"}))
scan("C13", "application-routes-gated", lambda: _scans.routes_gated("Application", {}))

# ---- a port is open exactly while software bound to it is running ------------------------------------------------------------------------------
contract(f"{SWM}::SoftwareManager.check_port_is_open", props=["C13"],
         ensures=[("open_iff_running_software_bound_to_it",
                   "result == exists(j, 0, len(self.software), dict_val(self.software, j).port == port and dict_val(self.software, j).protocol == protocol"
                   " and sw_running(dict_val(self.software, j)))")],
         modifies=[],
         loops={0: {"inv": [("none_so_far", "forall(j, 0, _i, not (dict_val(self.software, j).port == port and dict_val(self.software, j).protocol == protocol"
                                            " and sw_running(dict_val(self.software, j))))")]}})

# ---- the uninstall request: a name that is not installed is refused (never 'success'), and nothing changes -----------------------------------
contract("src/primaite/simulator/network/hardware/base.py::Node._init_request_manager#uninstall_application", props=["C05", "C13"], region=("def", "_uninstall_application"),
         types={"request": "List[Any]", "context": "Any"}, self_class="Node",
         requires=["len(request) >= 1", "self.software_manager is not None",
                   "implies(request[0] in self.software_manager.software, registered(self.software_manager, request[0])"
                   " and isinstance(self.software_manager.software[request[0]], Application))",
                   "self.software_manager.node._application_request_manager is not self.software_manager.node._service_request_manager"],
         ensures=[("absent_application_refused", "implies(not old(request[0] in self.software_manager.software), result.status == 'failure' and unchanged())"),
                  ("success_only_for_an_installed_application", "implies(result.status == 'success', old(request[0] in self.software_manager.software))")],
         modifies=["heap"], allocates=True)
