"""C04: episodes and environment instances are isolated -- the facets a contract can decide (DESIGN.md section 3, C04)."""
from pyvc import scans
from pyvc.contracts import contract, spec, scan

CLASS_STATE_OK = {
    "PacketCapture.clear:PacketCapture._logger_instances": "registry of open log handlers: logging only, never read by the simulation",
    "PacketCapture.setup_logger:PacketCapture._logger_instances.append()": "registry of open log handlers: logging only, never read by the simulation",
}
scan("C04", "class-and-module-state", lambda: scans.class_state_stores(CLASS_STATE_OK))
scan("C04", "mutable-default-arguments", scans.mutable_default_args)

B = "src/primaite/simulator/network/hardware/base.py"
contract(f"{B}::NetworkInterface.setup_for_episode", props=["C04"],
         ensures=[("counters_cleared", "len(self.nmne) == 0 and len(self.traffic) == 0")],
         modifies=["self.nmne", "self.traffic", "self.enabled", "self.pcap", "Link.current_load"], allocates=True)
contract(f"{B}::NetworkInterface.pre_timestep", props=["C04", "C18"],
         ensures=[("traffic_cleared", "len(self.traffic) == 0")], modifies=["self.traffic"], allocates=True)
