"""C04: episodes and environment instances are isolated -- the facets a contract can decide (DESIGN.md section 3, C04)."""
from pyvc import scans
from pyvc.contracts import contract, spec, scan

CLASS_STATE_OK = {
    "PacketCapture.clear:PacketCapture._logger_instances": "registry of open log handlers: logging only, never read by the simulation",
    "PacketCapture.setup_logger:PacketCapture._logger_instances.append()": "registry of open log handlers: logging only, never read by the simulation",
}
scan("C04", "class-and-module-state", lambda: scans.class_state_stores(CLASS_STATE_OK))
scan("C04", "mutable-default-arguments", scans.mutable_default_args)

B = "src/primaite/simulator/network/hardware/base.py"
contract(f"{B}::NetworkInterface.setup_for_episode", props=["C04"],
         ensures=[("counters_cleared", "len(self.nmne) == 0 and len(self.traffic) == 0")],
         modifies=["self.nmne", "self.traffic", "self.enabled", "self.pcap", "Link.current_load"], allocates=True)
contract(f"{B}::NetworkInterface.pre_timestep", props=["C04", "C18"],
         ensures=[("traffic_cleared", "len(self.traffic) == 0")], modifies=["self.traffic"], allocates=True)

# ---- episode schedulers: every call hands out a NEW scenario dictionary and keeps nothing from earlier calls ------------------------------
# (PrimaiteGame.from_config and the node loaders pop entries out of the dictionaries they are given: a scenario object that is
# shared between two episodes, or with the scheduler itself, would make the later episode depend on the earlier one)
ES = "src/primaite/session/episode_schedule.py"
contract(f"{ES}::ConstantEpisodeScheduler.__call__", props=["C04"],
         ensures=[("fresh_scenario_each_call", "fresh(result)")], modifies=[], allocates=True)
contract(f"{ES}::EpisodeListScheduler.__call__", props=["C04"],
         requires=["len(self.schedule) > 0", "forall(k, 0, len(self.schedule), k in self.schedule)",
                   "forall(k, 0, len(self.schedule), forall(j, 0, len(self.schedule[k]), self.schedule[k][j] in self.episode_data))"],
         ensures=[("fresh_scenario_each_call", "fresh(result)")],
         # a scenario text without an `agents` list is rejected with an exception (malformed input, not a property matter)
         raises={"KeyError": "True", "TypeError": "True"},
         modifies=["self._exceeded_episode_list"], allocates=True,
         loops={0: {"inv": [], "modifies": ["flat_agents_list[*]"]}})

# "after a reset the environment behaves exactly like a newly constructed one": reset() = build + setup_for_episode, so must be __init__
scan("C04", "built-games-are-set-up", lambda: scans.built_games_are_set_up())
# a value cached on an object must not be computed from something a later reset replaces (e.g. spaces cached on an environment)
scan("C04", "cached-values-stay-valid", lambda: scans.cached_values_stay_valid())
