"""C19: scripted green/red agents act only when and how their settings allow."""
from pyvc.contracts import contract, spec, inline, attr_types, writers, dispatch_contract

RA = "src/primaite/game/agent/scripted_agents/random_agent.py"
PA = "src/primaite/game/agent/scripted_agents/probabilistic_agent.py"
TP = "src/primaite/game/agent/scripted_agents/abstract_tap.py"
AM = "src/primaite/game/agent/actions/manager.py"

# ---- periodic agent -----------------------------------------------------------------------------------------------------------
contract(f"{RA}::PeriodicAgent._set_next_execution_timestep", props=["C19"],
         requires=["variance >= 0"],
         ensures=[("within_variance", "timestep - variance <= self.next_execution_timestep and self.next_execution_timestep <= timestep + variance")],
         modifies=["self.next_execution_timestep"])
contract(f"{RA}::PeriodicAgent.start_node", verify=False, note="cached random choice among the configured start nodes (functools.cached_property: stable)",
         ensures=["exists(j, 0, len(self.config.agent_settings.possible_start_nodes), result == self.config.agent_settings.possible_start_nodes[j])"],
         modifies=[])
contract(f"{RA}::PeriodicAgent.get_action", props=["C19"],
         requires=["self.config.agent_settings.variance >= 0"],
         ensures=[
             # acts exactly at its scheduled step while executions remain ...
             ("acts_only_when_due", "(result[0] != 'do-nothing') == (timestep == old(self.next_execution_timestep)"
                                    " and old(self.num_executions) < self.config.agent_settings.max_executions)"),
             # ... and then schedules the next action frequency +- variance later
             ("next_within_frequency_variance", "implies(result[0] != 'do-nothing',"
                                                " timestep + self.config.agent_settings.frequency - self.config.agent_settings.variance <= self.next_execution_timestep"
                                                " and self.next_execution_timestep <= timestep + self.config.agent_settings.frequency + self.config.agent_settings.variance"
                                                " and self.num_executions == old(self.num_executions) + 1)"),
             ("configured_action_only", "implies(result[0] != 'do-nothing', result[0] == 'node-application-execute'"
                                        " and result[1]['application_name'] == self.config.agent_settings.target_application"
                                        " and exists(j, 0, len(self.config.agent_settings.possible_start_nodes),"
                                        " result[1]['node_name'] == self.config.agent_settings.possible_start_nodes[j]))"),
             ("idle_changes_nothing", "implies(result[0] == 'do-nothing', self.next_execution_timestep == old(self.next_execution_timestep)"
                                      " and self.num_executions == old(self.num_executions))")],
         modifies=["self.num_executions", "self.next_execution_timestep"], allocates=True)

# ---- probabilistic agent ---------------------------------------------------------------------------------------------------------
contract(f"{AM}::ActionManager.get_action", props=["C19", "C01"],
         requires=["action in self.action_map"],
         ensures=[("entry", "result[0] == self.action_map[action][0] and result[1] is self.action_map[action][1]")], modifies=[])
spec("probs(a)", "a.config.agent_settings.action_probabilities")
contract(f"{PA}::ProbabilisticAgent.probabilities", props=["C19", "C20"],
         # ProbabilisticAgent.AgentSettingsSchema.action_map_covered_correctly: keys are exactly 0..N-1
         requires=["forall(i, 0, len(probs(self)), i in probs(self))"],
         ensures=[("indexed_by_action_number", "len(result) == len(probs(self)) and forall(i, 0, len(probs(self)), result[i] == probs(self)[i])")],
         modifies=[], allocates=True)
contract(f"{PA}::ProbabilisticAgent.get_action", props=["C19"],
         requires=["forall(i, 0, len(probs(self)), i in probs(self))", "len(probs(self)) == len(self.action_manager.action_map)",
                   "forall(i, 0, len(self.action_manager.action_map), i in self.action_manager.action_map)"],
         # "a probabilistic agent never selects an action given probability zero"
         ensures=[("never_probability_zero", "exists(c, 0, len(self.action_manager.action_map), probs(self)[c] > 0"
                                             " and result[0] == self.action_manager.action_map[c][0] and result[1] is self.action_manager.action_map[c][1])")],
         modifies=[], allocates=True)

# ---- threat actor profile ------------------------------------------------------------------------------------------------------------
contract(f"{TP}::AbstractTAP._set_next_execution_timestep", props=["C19"],
         requires=["self.config.agent_settings.variance >= 0"],
         ensures=[("within_variance", "timestep - self.config.agent_settings.variance <= self.next_execution_timestep"
                                      " and self.next_execution_timestep <= timestep + self.config.agent_settings.variance")],
         modifies=["self.next_execution_timestep"])
contract(f"{TP}::AbstractTAP._tap_return_handler", props=["C19"],
         requires=["0 <= timestep and timestep < len(self.history)"],
         ensures=[("success_iff_response_success", "result == (self.history[timestep].response.status == 'success')"),
                  # a failed action never advances the kill chain: the stage stays, or becomes FAILED when stages are not repeated
                  ("failure_never_advances", "implies(not result, self.current_kill_chain_stage == (BaseKillChain.FAILED"
                                             " if not self.config.agent_settings.repeat_kill_chain_stages else old(self.current_kill_chain_stage))"
                                             " and self.next_kill_chain_stage == old(self.next_kill_chain_stage))"),
                  ("success_changes_nothing", "implies(result, self.current_kill_chain_stage == old(self.current_kill_chain_stage))")],
         modifies=["self.current_kill_chain_stage"])

# ---- data-manipulation red agent: a periodic agent with its own get_action ---------------------------------------------------------------------
DM = "src/primaite/game/agent/scripted_agents/data_manipulation_bot.py"
contract(f"{DM}::DataManipulationAgent.get_action", props=["C19"],
         # the agent is asked once per step, so the scheduled step has not been passed yet when it is asked
         requires=["self.config.agent_settings.variance >= 0", "timestep <= self.next_execution_timestep"],
         ensures=[("acts_exactly_when_due", "(result[0] != 'do-nothing') == (timestep == old(self.next_execution_timestep))"),
                  ("next_within_frequency_variance", "implies(result[0] != 'do-nothing',"
                                                     " timestep + self.config.agent_settings.frequency - self.config.agent_settings.variance <= self.next_execution_timestep"
                                                     " and self.next_execution_timestep <= timestep + self.config.agent_settings.frequency + self.config.agent_settings.variance)"),
                  ("configured_action_only", "implies(result[0] != 'do-nothing', result[0] == 'node-application-execute'"
                                             " and result[1]['application_name'] == self.config.agent_settings.target_application"
                                             " and exists(j, 0, len(self.config.agent_settings.possible_start_nodes),"
                                             " result[1]['node_name'] == self.config.agent_settings.possible_start_nodes[j]))"),
                  ("idle_changes_nothing", "implies(result[0] == 'do-nothing', self.next_execution_timestep == old(self.next_execution_timestep))")],
         modifies=["self.next_execution_timestep"], allocates=True)

# ---- threat actors: a finished kill chain is either repeated or concluded, as configured --------------------------------------------------------
contract(f"{TP}::AbstractTAP._tap_outcome_handler", props=["C19"], types={"selected_kill_chain_class": "Type[BaseKillChain]"},
         ensures=[("unfinished_chain_untouched", "implies(old(self.current_kill_chain_stage) != BaseKillChain.SUCCEEDED and old(self.current_kill_chain_stage) != BaseKillChain.FAILED,"
                                                 " unchanged())"),
                  ("repeat_restarts_and_keeps_acting", "implies((old(self.current_kill_chain_stage) == BaseKillChain.SUCCEEDED or old(self.current_kill_chain_stage) == BaseKillChain.FAILED)"
                                                       " and not old(self.actions_concluded) and self.config.agent_settings.repeat_kill_chain,"
                                                       " self.current_kill_chain_stage == BaseKillChain.NOT_STARTED and self.actions_concluded == False)"),
                  ("no_repeat_concludes", "implies((old(self.current_kill_chain_stage) == BaseKillChain.SUCCEEDED or old(self.current_kill_chain_stage) == BaseKillChain.FAILED)"
                                          " and not self.config.agent_settings.repeat_kill_chain, self.actions_concluded == True"
                                          " and self.current_kill_chain_stage == old(self.current_kill_chain_stage))")],
         modifies=["self.current_kill_chain_stage", "self.next_kill_chain_stage", "self.actions_concluded", "self.chosen_action"], allocates=True)
contract(f"{TP}::BaseKillChain.initial_stage", verify=False, note="abstract: the first stage of a kill chain (an enumeration member)",
         ensures=[], modifies=[])

# ---- TAP001: the kill chain moves one stage at a time ----------------------------------------------------------------------------------------
T1 = "src/primaite/game/agent/scripted_agents/TAP001.py"
# AbstractTAP annotates the stage attributes with the base enumeration; TAP001 stores members of its own kill chain there (selected_kill_chain)
attr_types({"TAP001.current_kill_chain_stage": "MobileMalwareKillChain", "TAP001.next_kill_chain_stage": "MobileMalwareKillChain"})
# stages 1..6 in order, then SUCCEEDED; `next` is the successor of `current` (kept by _tap_start and _progress_kill_chain)
spec("chain_linked(a)", "(1 <= a.current_kill_chain_stage and a.current_kill_chain_stage <= 5 and a.next_kill_chain_stage == a.current_kill_chain_stage + 1)"
                        " or (a.current_kill_chain_stage == MobileMalwareKillChain.PAYLOAD and a.next_kill_chain_stage == MobileMalwareKillChain.SUCCEEDED)")
spec("stage_successor(s)", "MobileMalwareKillChain.SUCCEEDED if s == MobileMalwareKillChain.PAYLOAD else s + 1")
contract(f"{T1}::TAP001._progress_kill_chain", props=["C19"],
         requires=["chain_linked(self)"],
         ensures=[("advances_exactly_one_stage", "self.current_kill_chain_stage == stage_successor(old(self.current_kill_chain_stage))"),
                  ("stays_linked", "self.current_kill_chain_stage == MobileMalwareKillChain.SUCCEEDED or chain_linked(self)"),
                  ("new_stage_pending", "self.current_stage_progress == KillChainStageProgress.PENDING")],
         modifies=["self.current_kill_chain_stage", "self.next_kill_chain_stage", "self.current_stage_progress"])
STAGE_FRAME = ["self.current_kill_chain_stage", "self.next_kill_chain_stage", "self.current_stage_progress", "self.chosen_action", "self.current_host",
               "self.chosen_application"]
for _fn, _stage in (("_download", "DOWNLOAD"), ("_install", "INSTALL"), ("_activate", "ACTIVATE")):
    contract(f"{T1}::TAP001.{_fn}", props=["C19"],
             requires=[f"implies(self.current_kill_chain_stage == MobileMalwareKillChain.{_stage}, chain_linked(self))"],
             ensures=[("acts_only_in_its_own_stage", f"implies(old(self.current_kill_chain_stage) != MobileMalwareKillChain.{_stage}, unchanged())"),
                      ("at_most_one_stage_forward", "self.current_kill_chain_stage == old(self.current_kill_chain_stage)"
                                                    " or self.current_kill_chain_stage == stage_successor(old(self.current_kill_chain_stage))"),
                      ("stays_linked", f"implies(old(self.current_kill_chain_stage) == MobileMalwareKillChain.{_stage}, chain_linked(self))")],
             modifies=STAGE_FRAME, allocates=True)
# the three interactive stages call scan/C2/payload helpers that are not under contract: their bodies are abstracted (any effect), so only the
# stage guard is proved for them
# (the settings dictionaries are filled with these keys by TAP001.setup_agent, which __init__ runs)
_SETUP_KEYS = {"_propagate": [], "_c2c": [], "_payload": []}
for _fn, _stage in (("_propagate", "PROPAGATE"), ("_c2c", "COMMAND_AND_CONTROL"), ("_payload", "PAYLOAD")):
    contract(f"{T1}::TAP001.{_fn}", props=["C19"], abstract_callees=True, requires=_SETUP_KEYS[_fn],
             ensures=[("acts_only_in_its_own_stage", f"implies(old(self.current_kill_chain_stage) != MobileMalwareKillChain.{_stage}, unchanged())")],
             modifies=["heap"], allocates=True)
contract(f"{TP}::AbstractTAP.update_current_timestep", props=["C19"],
         ensures=[("stored", "self.current_timestep == new_timestep")], modifies=["self.current_timestep"])
# _tap_start as TAP001 runs it (selected_kill_chain and the argument are its MobileMalwareKillChain)
contract(f"{TP}::AbstractTAP._tap_start#tap001", props=["C19"], self_class="TAP001", types={"tap_kill_chain": "Type[MobileMalwareKillChain]"},
         ensures=[("starts_only_when_not_started", "implies(old(self.current_kill_chain_stage) != MobileMalwareKillChain.NOT_STARTED, unchanged())"),
                  ("starts_at_the_first_stage", "implies(old(self.current_kill_chain_stage) == MobileMalwareKillChain.NOT_STARTED,"
                                                " self.current_kill_chain_stage == MobileMalwareKillChain.DOWNLOAD and chain_linked(self))")],
         modifies=["self.current_kill_chain_stage", "self.next_kill_chain_stage", "self.chosen_action"], allocates=True)
spec("early_stage(s)", "1 <= s and s <= 3")
contract(f"{T1}::TAP001.get_action", props=["C19"],
         requires=["self.config.agent_settings.variance >= 0", "0 <= self.current_timestep and self.current_timestep < len(self.history)",
                   "'continue_on_failed_exfil' in self.payload_settings", "'c2_server' in self.c2_settings",
                   # this contract covers the calls made while the chain is outside the three interactive stages, whose handlers are only
                   # abstracted views (their scan/C2/payload helpers are not under contract)
                   "(chain_linked(self) and early_stage(self.current_kill_chain_stage)) or self.current_kill_chain_stage == MobileMalwareKillChain.NOT_STARTED"
                   " or self.current_kill_chain_stage == MobileMalwareKillChain.SUCCEEDED or self.current_kill_chain_stage == MobileMalwareKillChain.FAILED"],
         ensures=[
             # "moves through its kill chain strictly in stage order without skipping a stage" (the stages whose handlers are fully under contract)
             ("no_stage_skipped", "implies(early_stage(old(self.current_kill_chain_stage)),"
                                  " self.current_kill_chain_stage == old(self.current_kill_chain_stage)"
                                  " or self.current_kill_chain_stage == old(self.current_kill_chain_stage) + 1"
                                  " or self.current_kill_chain_stage == MobileMalwareKillChain.FAILED"
                                  " or self.current_kill_chain_stage == MobileMalwareKillChain.NOT_STARTED)"),
             ("failed_action_never_advances", "implies(early_stage(old(self.current_kill_chain_stage)) and timestep >= old(self.next_execution_timestep)"
                                              " and not old(self.actions_concluded)"
                                              " and old(self.history[self.current_timestep].response.status) != 'success',"
                                              " self.current_kill_chain_stage != old(self.current_kill_chain_stage) + 1)"),
             ("start_enters_the_first_stage", "implies(old(self.current_kill_chain_stage) == MobileMalwareKillChain.NOT_STARTED,"
                                              " self.current_kill_chain_stage == MobileMalwareKillChain.NOT_STARTED"
                                              " or self.current_kill_chain_stage == MobileMalwareKillChain.DOWNLOAD"
                                              " or self.current_kill_chain_stage == MobileMalwareKillChain.FAILED)"),
             ("idle_before_its_time", "implies(timestep < old(self.next_execution_timestep) or old(self.actions_concluded),"
                                      " result[0] == 'do-nothing' and unchanged())")],
         modifies=["heap"], allocates=True)

# ---- TAP001 reading a port-scan answer that has nothing about the target (blue switched the target off in between): no crash (C01) ---------
attr_types({"TAP001.network_knowledge": "Dict[str, Any]"})
contract(f"{T1}::TAP001._scan_action_response_handler#target_found", props=["C01", "C19"], bounded=2,
         region=("block", {"start": "if self.network_knowledge.get('target_found'):", "count": 1}),
         types={"self": "TAP001", "scan_results": "Dict[str, Dict[str, List[int]]]"},
         ensures=[],
         modifies=["self.network_knowledge{*}"], allocates=True)
