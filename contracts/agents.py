"""C19: scripted green/red agents act only when and how their settings allow."""
from pyvc.contracts import contract, spec, inline, attr_types, writers, dispatch_contract

RA = "src/primaite/game/agent/scripted_agents/random_agent.py"
PA = "src/primaite/game/agent/scripted_agents/probabilistic_agent.py"
TP = "src/primaite/game/agent/scripted_agents/abstract_tap.py"
AM = "src/primaite/game/agent/actions/manager.py"

# ---- periodic agent -----------------------------------------------------------------------------------------------------------
contract(f"{RA}::PeriodicAgent._set_next_execution_timestep", props=["C19"],
         requires=["variance >= 0"],
         ensures=[("within_variance", "timestep - variance <= self.next_execution_timestep and self.next_execution_timestep <= timestep + variance")],
         modifies=["self.next_execution_timestep"])
contract(f"{RA}::PeriodicAgent.start_node", verify=False, note="cached random choice among the configured start nodes (functools.cached_property: stable)",
         ensures=["exists(j, 0, len(self.config.agent_settings.possible_start_nodes), result == self.config.agent_settings.possible_start_nodes[j])"],
         modifies=[])
contract(f"{RA}::PeriodicAgent.get_action", props=["C19"],
         requires=["self.config.agent_settings.variance >= 0"],
         ensures=[
             # acts exactly at its scheduled step while executions remain ...
             ("acts_only_when_due", "(result[0] != 'do-nothing') == (timestep == old(self.next_execution_timestep)"
                                    " and old(self.num_executions) < self.config.agent_settings.max_executions)"),
             # ... and then schedules the next action frequency +- variance later
             ("next_within_frequency_variance", "implies(result[0] != 'do-nothing',"
                                                " timestep + self.config.agent_settings.frequency - self.config.agent_settings.variance <= self.next_execution_timestep"
                                                " and self.next_execution_timestep <= timestep + self.config.agent_settings.frequency + self.config.agent_settings.variance"
                                                " and self.num_executions == old(self.num_executions) + 1)"),
             ("configured_action_only", "implies(result[0] != 'do-nothing', result[0] == 'node-application-execute'"
                                        " and result[1]['application_name'] == self.config.agent_settings.target_application"
                                        " and exists(j, 0, len(self.config.agent_settings.possible_start_nodes),"
                                        " result[1]['node_name'] == self.config.agent_settings.possible_start_nodes[j]))"),
             ("idle_changes_nothing", "implies(result[0] == 'do-nothing', self.next_execution_timestep == old(self.next_execution_timestep)"
                                      " and self.num_executions == old(self.num_executions))")],
         modifies=["self.num_executions", "self.next_execution_timestep"], allocates=True)

# ---- probabilistic agent ---------------------------------------------------------------------------------------------------------
contract(f"{AM}::ActionManager.get_action", props=["C19", "C01"],
         requires=["action in self.action_map"],
         ensures=[("entry", "result[0] == self.action_map[action][0] and result[1] is self.action_map[action][1]")], modifies=[])
spec("probs(a)", "a.config.agent_settings.action_probabilities")
contract(f"{PA}::ProbabilisticAgent.probabilities", props=["C19", "C20"],
         # ProbabilisticAgent.AgentSettingsSchema.action_map_covered_correctly: keys are exactly 0..N-1
         requires=["forall(i, 0, len(probs(self)), i in probs(self))"],
         ensures=[("indexed_by_action_number", "len(result) == len(probs(self)) and forall(i, 0, len(probs(self)), result[i] == probs(self)[i])")],
         modifies=[], allocates=True)
contract(f"{PA}::ProbabilisticAgent.get_action", props=["C19"],
         requires=["forall(i, 0, len(probs(self)), i in probs(self))", "len(probs(self)) == len(self.action_manager.action_map)",
                   "forall(i, 0, len(self.action_manager.action_map), i in self.action_manager.action_map)"],
         # "a probabilistic agent never selects an action given probability zero"
         ensures=[("never_probability_zero", "exists(c, 0, len(self.action_manager.action_map), probs(self)[c] > 0"
                                             " and result[0] == self.action_manager.action_map[c][0] and result[1] is self.action_manager.action_map[c][1])")],
         modifies=[], allocates=True)

# ---- threat actor profile ------------------------------------------------------------------------------------------------------------
contract(f"{TP}::AbstractTAP._set_next_execution_timestep", props=["C19"],
         requires=["self.config.agent_settings.variance >= 0"],
         ensures=[("within_variance", "timestep - self.config.agent_settings.variance <= self.next_execution_timestep"
                                      " and self.next_execution_timestep <= timestep + self.config.agent_settings.variance")],
         modifies=["self.next_execution_timestep"])
contract(f"{TP}::AbstractTAP._tap_return_handler", props=["C19"],
         requires=["0 <= timestep and timestep < len(self.history)"],
         ensures=[("success_iff_response_success", "result == (self.history[timestep].response.status == 'success')"),
                  # a failed action never advances the kill chain: the stage stays, or becomes FAILED when stages are not repeated
                  ("failure_never_advances", "implies(not result, self.current_kill_chain_stage == (BaseKillChain.FAILED"
                                             " if not self.config.agent_settings.repeat_kill_chain_stages else old(self.current_kill_chain_stage))"
                                             " and self.next_kill_chain_stage == old(self.next_kill_chain_stage))"),
                  ("success_changes_nothing", "implies(result, self.current_kill_chain_stage == old(self.current_kill_chain_stage))")],
         modifies=["self.current_kill_chain_stage"])

# ---- data-manipulation red agent: a periodic agent with its own get_action ---------------------------------------------------------------------
DM = "src/primaite/game/agent/scripted_agents/data_manipulation_bot.py"
contract(f"{DM}::DataManipulationAgent.get_action", props=["C19"],
         # the agent is asked once per step, so the scheduled step has not been passed yet when it is asked
         requires=["self.config.agent_settings.variance >= 0", "timestep <= self.next_execution_timestep"],
         ensures=[("acts_exactly_when_due", "(result[0] != 'do-nothing') == (timestep == old(self.next_execution_timestep))"),
                  ("next_within_frequency_variance", "implies(result[0] != 'do-nothing',"
                                                     " timestep + self.config.agent_settings.frequency - self.config.agent_settings.variance <= self.next_execution_timestep"
                                                     " and self.next_execution_timestep <= timestep + self.config.agent_settings.frequency + self.config.agent_settings.variance)"),
                  ("configured_action_only", "implies(result[0] != 'do-nothing', result[0] == 'node-application-execute'"
                                             " and result[1]['application_name'] == self.config.agent_settings.target_application"
                                             " and exists(j, 0, len(self.config.agent_settings.possible_start_nodes),"
                                             " result[1]['node_name'] == self.config.agent_settings.possible_start_nodes[j]))"),
                  ("idle_changes_nothing", "implies(result[0] == 'do-nothing', self.next_execution_timestep == old(self.next_execution_timestep))")],
         modifies=["self.next_execution_timestep"], allocates=True)

# ---- threat actors: a finished kill chain is either repeated or concluded, as configured --------------------------------------------------------
contract(f"{TP}::AbstractTAP._tap_outcome_handler", props=["C19"], types={"selected_kill_chain_class": "Type[BaseKillChain]"},
         ensures=[("unfinished_chain_untouched", "implies(old(self.current_kill_chain_stage) != BaseKillChain.SUCCEEDED and old(self.current_kill_chain_stage) != BaseKillChain.FAILED,"
                                                 " unchanged())"),
                  ("repeat_restarts_and_keeps_acting", "implies((old(self.current_kill_chain_stage) == BaseKillChain.SUCCEEDED or old(self.current_kill_chain_stage) == BaseKillChain.FAILED)"
                                                       " and not old(self.actions_concluded) and self.config.agent_settings.repeat_kill_chain,"
                                                       " self.current_kill_chain_stage == BaseKillChain.NOT_STARTED and self.actions_concluded == False)"),
                  ("no_repeat_concludes", "implies((old(self.current_kill_chain_stage) == BaseKillChain.SUCCEEDED or old(self.current_kill_chain_stage) == BaseKillChain.FAILED)"
                                          " and not self.config.agent_settings.repeat_kill_chain, self.actions_concluded == True"
                                          " and self.current_kill_chain_stage == old(self.current_kill_chain_stage))")],
         modifies=["self.current_kill_chain_stage", "self.next_kill_chain_stage", "self.actions_concluded", "self.chosen_action"], allocates=True)
contract(f"{TP}::BaseKillChain.initial_stage", verify=False, note="abstract: the first stage of a kill chain (an enumeration member)",
         ensures=[], modifies=[])
