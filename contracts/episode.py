"""C01: stepping / resetting keeps the episode contract (the bookkeeping and dispatcher part; see DESIGN.md for what is outside)."""
from pyvc.contracts import contract, spec, inline, attr_types, writers, dispatch_contract

G = "src/primaite/game/game.py"
ENV = "src/primaite/session/environment.py"
IF = "src/primaite/game/agent/interface.py"
SC = "src/primaite/simulator/sim_container.py"
CORE = "src/primaite/simulator/core.py"

attr_types({"PrimaiteGymEnv.game": "PrimaiteGame", "PrimaiteGymEnv._agent_name": "str", "PrimaiteGymEnv.episode_counter": "int",
            "PrimaiteGymEnv.total_reward_per_episode": "Dict[int, float]", "PrimaiteGymEnv.episode_scheduler": "Any",
            "PrimaiteGymEnv.io": "Any", "PrimaiteGymEnv.seed": "Any", "PrimaiteGymEnv.generate_seed_value": "Any"})

# what the simulation may do when asked: anything to simulation objects -- but it has no access to the game's counters or to
# the agents' histories (writer frames below), which is all the episode bookkeeping relies on
GAME_STATE = ["PrimaiteGymEnv.game", "PrimaiteGymEnv._agent_name", "PrimaiteGymEnv.episode_counter", "PrimaiteGame.step_counter", "PrimaiteGame.options", "PrimaiteGame.agents", "PrimaiteGame.rl_agents", "PrimaiteGame.simulation",
              "PrimaiteGame._reward_calculation_order", "PrimaiteGameOptions.max_episode_length", "AbstractAgent.history",
              "AbstractAgent.reward_function", "AbstractAgent.observation_manager", "AbstractAgent.action_manager",
              "List[AgentHistoryItem][*]", "List[str][*]", "Dict[str, AbstractAgent]{*}", "Dict[str, ProxyAgent]{*}",
              "AgentHistoryItem.timestep", "AgentHistoryItem.action", "AgentHistoryItem.response", "AgentHistoryItem.reward"]
contract(f"{SC}::Simulation.pre_timestep", verify=False, note="per-tick resets in the simulation", ensures=[], modifies=["heap"],
         preserves=GAME_STATE, emits=[("sim_pre", ["self", "timestep"])], exact_events=True, allocates=True)
contract(f"{SC}::Simulation.apply_timestep", verify=False, note="one tick of simulation dynamics", ensures=[], modifies=["heap"],
         preserves=GAME_STATE, emits=[("sim_tick", ["self", "timestep"])], exact_events=True, allocates=True)
contract(f"{SC}::Simulation.describe_state", verify=False, note="read-only snapshot of the simulation", ensures=[], modifies=[], allocates=True)
contract(f"{CORE}::SimComponent.apply_request", props=["C01", "C05"],
         requires=["self._request_manager is not None"],
         ensures=[], modifies=["heap"], allocates=True, dyn_result="RequestResponse")
dispatch_contract(f"{CORE}::SimComponent.apply_request", ensures=["isinstance(result, RequestResponse)"], modifies=["heap"], preserves=GAME_STATE,
                  emits=[("request", ["self", "request"])], allocates=True)

contract(f"{G}::PrimaiteGame.calculate_truncated", props=["C01"],
         ensures=[("truncated_iff_max_steps", "result == (self.step_counter >= self.options.max_episode_length)")], modifies=[])
contract(f"{G}::PrimaiteGame.pre_timestep", props=["C01"],
         ensures=[("pre_tick_of_current_step", "n_events() == old(n_events()) + 1 and event_kind(n_events() - 1) == ev('sim_pre')"
                                               " and event_arg(n_events() - 1, 1) == old(self.step_counter)"),
                  ("counter_kept", "self.step_counter == old(self.step_counter)")],
         modifies=["heap"], preserves=GAME_STATE, allocates=True)
contract(f"{G}::PrimaiteGame.advance_timestep", props=["C01"],
         ensures=[("exactly_one_tick", "self.step_counter == old(self.step_counter) + 1"),
                  ("simulation_ticked_once_with_new_time", "n_events() == old(n_events()) + 1 and event_kind(n_events() - 1) == ev('sim_tick')"
                                                           " and event_arg(n_events() - 1, 1) == old(self.step_counter) + 1")],
         modifies=["heap"], preserves=[g for g in GAME_STATE if g != "PrimaiteGame.step_counter"], allocates=True,
         inline=[f"{G}::PrimaiteGame.update_agent_loggers"])
contract(f"{G}::PrimaiteGame.update_agent_loggers", props=["C01"], ensures=[], modifies=[], loops={0: {"inv": [], "modifies": []}})

contract(f"{IF}::AbstractAgent.process_action_response", props=["C01"],
         ensures=[("one_item_appended", "len(self.history) == old(len(self.history)) + 1"),
                  ("item", "self.history[len(self.history) - 1].timestep == timestep and self.history[len(self.history) - 1].action == action"
                           " and self.history[len(self.history) - 1].response is response and fresh(self.history[len(self.history) - 1])"),
                  ("earlier_items_kept", "forall(k, 0, old(len(self.history)), self.history[k] is old(self.history[k]))")],
         modifies=["self.history[*]"], allocates=True)

# ---- every agent acts exactly once per step -------------------------------------------------------------------------------------
dispatch_contract(f"{IF}::AbstractAgent.get_action", ensures=["isinstance(result[0], str)"], modifies=["heap"], preserves=GAME_STATE, allocates=True)
contract(f"{IF}::AbstractAgent.get_action", verify=False, note="abstract: an agent's policy may do anything to its own state, not to the game's bookkeeping",
         ensures=["isinstance(result[0], str)"], modifies=["heap"], preserves=GAME_STATE, allocates=True)
contract(f"{IF}::AbstractAgent.format_request", verify=False, note="pure translation of the chosen action into a request (see C05/C11 form_request)",
         ensures=[], modifies=[], allocates=True)
dispatch_contract(f"{IF}::AbstractAgent.format_request", ensures=[], modifies=[], allocates=True)
spec("game_agent(g, j)", "dict_val(g.agents, j)")
contract(f"{G}::PrimaiteGame.apply_agent_actions", props=["C01"], bounded=2,
         requires=["self.simulation._request_manager is not None",
                   # different names are different agents with their own history lists
                   "forall(a, 0, len(self.agents), forall(b, 0, len(self.agents), implies(a != b, game_agent(self, a) is not game_agent(self, b)"
                   " and game_agent(self, a).history is not game_agent(self, b).history)))"],
         # "records exactly one action and one response for every agent in the scenario", stamped with the current tick
         ensures=[("one_record_per_agent", "forall(j, 0, len(self.agents), len(game_agent(self, j).history) == old(len(game_agent(self, j).history)) + 1"
                                           " and game_agent(self, j).history[len(game_agent(self, j).history) - 1].timestep == old(self.step_counter))"),
                  ("counter_kept", "self.step_counter == old(self.step_counter) and same_dict(self.agents) and self.simulation is old(self.simulation)"
                                   " and self.options is old(self.options)")],
         modifies=["heap"], preserves=[g for g in GAME_STATE if g not in ("List[AgentHistoryItem][*]",)], allocates=True,
         loops={0: {"inv": [("recorded_so_far", "forall(j, 0, _i, len(game_agent(self, j).history) == old(len(game_agent(self, j).history)) + 1"
                                                " and game_agent(self, j).history[len(game_agent(self, j).history) - 1].timestep == old(self.step_counter))"),
                            ("rest_untouched", "forall(j, _i, len(self.agents), len(game_agent(self, j).history) == old(len(game_agent(self, j).history)))"),
                            ("structure", "self.step_counter == old(self.step_counter) and same_dict(self.agents) and self.simulation is old(self.simulation)"
                                          " and self.options is old(self.options) and self.simulation._request_manager is not None"),
                            ("agents_distinct", "forall(a, 0, len(self.agents), forall(b, 0, len(self.agents), implies(a != b, game_agent(self, a) is not game_agent(self, b)"
                                                " and game_agent(self, a).history is not game_agent(self, b).history)))")],
                    "modifies": ["heap"]}})

# ---- the gymnasium wrapper ---------------------------------------------------------------------------------------------------------
contract(f"{IF}::ProxyAgent.store_action", props=["C01"], ensures=[("stored", "self.most_recent_action is action")],
         modifies=["self.most_recent_action"])
contract(f"{ENV}::PrimaiteGymEnv._get_obs", verify=False, note="reads the agent's current observation (gymnasium.spaces.flatten when configured)",
         ensures=[], modifies=[], allocates=True)
contract(f"{ENV}::PrimaiteGymEnv._write_step_metadata_json", verify=False, note="writes a JSON file: no simulation state", ensures=[], modifies=[], allocates=True)
inline(f"{ENV}::PrimaiteGymEnv.agent")
inline(f"{G}::PrimaiteGame.get_sim_state")
UA_REQ = ["forall(k, 0, len(self.game._reward_calculation_order), self.game._reward_calculation_order[k] in self.game.agents)",
          "forall(a, 0, len(self.game._reward_calculation_order), forall(b, 0, len(self.game._reward_calculation_order), implies(a != b,"
          " agent_at(self.game, a) is not agent_at(self.game, b) and agent_at(self.game, a).reward_function is not agent_at(self.game, b).reward_function)))"]
contract(f"{ENV}::PrimaiteGymEnv.step", props=["C01"], bounded=2,
         requires=["self._agent_name in self.game.rl_agents", "self.game.simulation._request_manager is not None",
                   "forall(a, 0, len(self.game.agents), forall(b, 0, len(self.game.agents), implies(a != b, game_agent(self.game, a) is not game_agent(self.game, b)"
                   " and game_agent(self.game, a).history is not game_agent(self.game, b).history)))"] + UA_REQ,
         ensures=[("one_tick", "self.game.step_counter == old(self.game.step_counter) + 1"),
                  ("never_terminated", "result[2] == False"),
                  ("truncated_iff_max_steps", "result[3] == (self.game.step_counter >= self.game.options.max_episode_length)"),
                  ("same_game", "self.game is old(self.game)")],
         modifies=["heap"], allocates=True)

# call-site view of update_agents from the environment wrapper: its precondition (every agent has a history item, the order is
# a permutation of the agents) is established by apply_agent_actions / setup_reward_sharing and is ASSUMED at this call site
dispatch_contract(f"{G}::PrimaiteGame.update_agents", ensures=[],
                  modifies=["RewardFunction.current_reward", "RewardFunction.total_reward", "AbstractReward.reward", "AbstractReward.location_in_state",
                            "AbstractReward.callback", "AgentHistoryItem.reward", "ObservationManager.current_observation"], allocates=True)
