"""C01: stepping / resetting keeps the episode contract (the bookkeeping and dispatcher part; see DESIGN.md for what is outside)."""
from pyvc.contracts import contract, spec, inline, attr_types, writers, dispatch_contract

G = "src/primaite/game/game.py"
ENV = "src/primaite/session/environment.py"
IF = "src/primaite/game/agent/interface.py"
SC = "src/primaite/simulator/sim_container.py"
CORE = "src/primaite/simulator/core.py"

attr_types({"PrimaiteGymEnv.game": "PrimaiteGame", "PrimaiteGymEnv._agent_name": "str", "PrimaiteGymEnv.episode_counter": "int",
            "PrimaiteGymEnv.total_reward_per_episode": "Dict[int, float]", "PrimaiteGymEnv.episode_scheduler": "Any",
            "PrimaiteGymEnv.io": "Any", "PrimaiteGymEnv.seed": "Any", "PrimaiteGymEnv.generate_seed_value": "Any"})

# what the simulation may do when asked: anything to simulation objects -- but it has no access to the game's counters or to
# the agents' histories (writer frames below), which is all the episode bookkeeping relies on
GAME_STATE = ["PrimaiteGymEnv.game", "PrimaiteGymEnv._agent_name", "PrimaiteGymEnv.episode_counter", "PrimaiteGame.step_counter", "PrimaiteGame.options", "PrimaiteGame.agents", "PrimaiteGame.rl_agents", "PrimaiteGame.simulation",
              "PrimaiteGame._reward_calculation_order", "PrimaiteGameOptions.max_episode_length", "AbstractAgent.history",
              "AbstractAgent.reward_function", "AbstractAgent.observation_manager", "AbstractAgent.action_manager",
              "List[AgentHistoryItem][*]", "List[str][*]", "Dict[str, AbstractAgent]{*}", "Dict[str, ProxyAgent]{*}",
              "AgentHistoryItem.timestep", "AgentHistoryItem.action", "AgentHistoryItem.response", "AgentHistoryItem.reward"]
contract(f"{SC}::Simulation.pre_timestep", verify=False, note="per-tick resets in the simulation", ensures=[], modifies=["heap"],
         preserves=GAME_STATE, emits=[("sim_pre", ["self", "timestep"])], exact_events=True, allocates=True)
contract(f"{SC}::Simulation.apply_timestep", verify=False, note="one tick of simulation dynamics", ensures=[], modifies=["heap"],
         preserves=GAME_STATE, emits=[("sim_tick", ["self", "timestep"])], exact_events=True, allocates=True)
contract(f"{SC}::Simulation.describe_state", verify=False, note="read-only snapshot of the simulation", ensures=[], modifies=[], allocates=True)
contract(f"{CORE}::SimComponent.apply_request", props=["C01", "C05"],
         requires=["self._request_manager is not None"],
         ensures=[], modifies=["heap"], allocates=True, dyn_result="RequestResponse")
dispatch_contract(f"{CORE}::SimComponent.apply_request", ensures=["isinstance(result, RequestResponse)"], modifies=["heap"], preserves=GAME_STATE,
                  emits=[("request", ["self", "request"])], allocates=True)

contract(f"{G}::PrimaiteGame.calculate_truncated", props=["C01"],
         ensures=[("truncated_iff_max_steps", "result == (self.step_counter >= self.options.max_episode_length)")], modifies=[])
contract(f"{G}::PrimaiteGame.pre_timestep", props=["C01"],
         ensures=[("pre_tick_of_current_step", "n_events() == old(n_events()) + 1 and event_kind(n_events() - 1) == ev('sim_pre')"
                                               " and event_arg(n_events() - 1, 1) == old(self.step_counter)"),
                  ("counter_kept", "self.step_counter == old(self.step_counter)")],
         modifies=["heap"], preserves=GAME_STATE, allocates=True)
contract(f"{G}::PrimaiteGame.advance_timestep", props=["C01"],
         ensures=[("exactly_one_tick", "self.step_counter == old(self.step_counter) + 1"),
                  ("simulation_ticked_once_with_new_time", "n_events() == old(n_events()) + 1 and event_kind(n_events() - 1) == ev('sim_tick')"
                                                           " and event_arg(n_events() - 1, 1) == old(self.step_counter) + 1")],
         modifies=["heap"], preserves=[g for g in GAME_STATE if g != "PrimaiteGame.step_counter"], allocates=True,
         inline=[f"{G}::PrimaiteGame.update_agent_loggers"])
contract(f"{G}::PrimaiteGame.update_agent_loggers", props=["C01"], ensures=[], modifies=[], loops={0: {"inv": [], "modifies": []}})

contract(f"{IF}::AbstractAgent.process_action_response", props=["C01"],
         ensures=[("one_item_appended", "len(self.history) == old(len(self.history)) + 1"),
                  ("item", "self.history[len(self.history) - 1].timestep == timestep and self.history[len(self.history) - 1].action == action"
                           " and self.history[len(self.history) - 1].response is response and fresh(self.history[len(self.history) - 1])"),
                  ("earlier_items_kept", "forall(k, 0, old(len(self.history)), self.history[k] is old(self.history[k]))")],
         modifies=["self.history[*]"], allocates=True)

# ---- every agent acts exactly once per step -------------------------------------------------------------------------------------
dispatch_contract(f"{IF}::AbstractAgent.get_action", ensures=["isinstance(result[0], str)"], modifies=["heap"], preserves=GAME_STATE, allocates=True)
contract(f"{IF}::AbstractAgent.get_action", verify=False, note="abstract: an agent's policy may do anything to its own state, not to the game's bookkeeping",
         ensures=["isinstance(result[0], str)"], modifies=["heap"], preserves=GAME_STATE, allocates=True)
contract(f"{IF}::AbstractAgent.format_request", verify=False, note="pure translation of the chosen action into a request (see C05/C11 form_request)",
         ensures=[], modifies=[], allocates=True)
dispatch_contract(f"{IF}::AbstractAgent.format_request", ensures=[], modifies=[], allocates=True)
spec("game_agent(g, j)", "dict_val(g.agents, j)")
contract(f"{G}::PrimaiteGame.apply_agent_actions", props=["C01"], bounded=2,
         requires=["self.simulation._request_manager is not None",
                   # different names are different agents with their own history lists
                   "forall(a, 0, len(self.agents), forall(b, 0, len(self.agents), implies(a != b, game_agent(self, a) is not game_agent(self, b)"
                   " and game_agent(self, a).history is not game_agent(self, b).history)))"],
         # "records exactly one action and one response for every agent in the scenario", stamped with the current tick
         ensures=[("one_record_per_agent", "forall(j, 0, len(self.agents), len(game_agent(self, j).history) == old(len(game_agent(self, j).history)) + 1"
                                           " and game_agent(self, j).history[len(game_agent(self, j).history) - 1].timestep == old(self.step_counter))"),
                  ("counter_kept", "self.step_counter == old(self.step_counter) and same_dict(self.agents) and self.simulation is old(self.simulation)"
                                   " and self.options is old(self.options)")],
         modifies=["heap"], preserves=[g for g in GAME_STATE if g not in ("List[AgentHistoryItem][*]",)], allocates=True,
         loops={0: {"inv": [("recorded_so_far", "forall(j, 0, _i, len(game_agent(self, j).history) == old(len(game_agent(self, j).history)) + 1"
                                                " and game_agent(self, j).history[len(game_agent(self, j).history) - 1].timestep == old(self.step_counter))"),
                            ("rest_untouched", "forall(j, _i, len(self.agents), len(game_agent(self, j).history) == old(len(game_agent(self, j).history)))"),
                            ("structure", "self.step_counter == old(self.step_counter) and same_dict(self.agents) and self.simulation is old(self.simulation)"
                                          " and self.options is old(self.options) and self.simulation._request_manager is not None"),
                            ("agents_distinct", "forall(a, 0, len(self.agents), forall(b, 0, len(self.agents), implies(a != b, game_agent(self, a) is not game_agent(self, b)"
                                                " and game_agent(self, a).history is not game_agent(self, b).history)))")],
                    "modifies": ["heap"]}})

# ---- the gymnasium wrapper ---------------------------------------------------------------------------------------------------------
contract(f"{IF}::ProxyAgent.store_action", props=["C01"], ensures=[("stored", "self.most_recent_action is action")],
         modifies=["self.most_recent_action"])
contract(f"{ENV}::PrimaiteGymEnv._get_obs", verify=False, note="reads the agent's current observation (gymnasium.spaces.flatten when configured)",
         ensures=[], modifies=[], allocates=True)
contract(f"{ENV}::PrimaiteGymEnv._write_step_metadata_json", verify=False, note="writes a JSON file: no simulation state", ensures=[], modifies=[], allocates=True)
inline(f"{ENV}::PrimaiteGymEnv.agent")
inline(f"{G}::PrimaiteGame.get_sim_state")
UA_REQ = ["forall(k, 0, len(self.game._reward_calculation_order), self.game._reward_calculation_order[k] in self.game.agents)",
          "forall(a, 0, len(self.game._reward_calculation_order), forall(b, 0, len(self.game._reward_calculation_order), implies(a != b,"
          " agent_at(self.game, a) is not agent_at(self.game, b) and agent_at(self.game, a).reward_function is not agent_at(self.game, b).reward_function)))"]
contract(f"{ENV}::PrimaiteGymEnv.step", props=["C01"], bounded=2,
         requires=["self._agent_name in self.game.rl_agents", "self.game.simulation._request_manager is not None",
                   "forall(a, 0, len(self.game.agents), forall(b, 0, len(self.game.agents), implies(a != b, game_agent(self.game, a) is not game_agent(self.game, b)"
                   " and game_agent(self.game, a).history is not game_agent(self.game, b).history)))"] + UA_REQ,
         ensures=[("one_tick", "self.game.step_counter == old(self.game.step_counter) + 1"),
                  ("never_terminated", "result[2] == False"),
                  ("truncated_iff_max_steps", "result[3] == (self.game.step_counter >= self.game.options.max_episode_length)"),
                  ("same_game", "self.game is old(self.game)")],
         modifies=["heap"], allocates=True)

# call-site view of update_agents from the environment wrapper: its precondition (every agent has a history item, the order is
# a permutation of the agents) is established by apply_agent_actions / setup_reward_sharing and is ASSUMED at this call site
dispatch_contract(f"{G}::PrimaiteGame.update_agents", ensures=[],
                  modifies=["RewardFunction.current_reward", "RewardFunction.total_reward", "AbstractReward.reward", "AbstractReward.location_in_state",
                            "AbstractReward.callback", "AgentHistoryItem.reward", "ObservationManager.current_observation"], allocates=True)

# ---- reset: a new episode, seeded when asked, built from the scheduler's scenario for the new episode number -----------------------------
SES = "src/primaite/session"
ENV_STATE = GAME_STATE + ["PrimaiteGymEnv.total_reward_per_episode", "Dict[int, float]{*}", "PrimaiteGymEnv.episode_scheduler", "PrimaiteGymEnv.io"]
attr_types({"PrimaiteGymEnv.io": "PrimaiteIO", "PrimaiteGymEnv.episode_scheduler": "EpisodeScheduler"})
contract(f"{SES}/io.py::PrimaiteIO.write_agent_log", verify=False, note="writes a JSON file: no simulation state", ensures=[], modifies=[], allocates=True)
contract("src/primaite/simulator/system/core/packet_capture.py::PacketCapture.clear", verify=False,
         note="closes capture file handlers (class-level logger list; see the C04 class-state scan)", ensures=[], modifies=[], allocates=True)
dispatch_contract(f"{SES}/episode_schedule.py::EpisodeScheduler.__call__", ensures=[], modifies=[],
                  emits=[("schedule", ["self", "episode_num"])], exact_events=True, allocates=True)
contract(f"{SES}/episode_schedule.py::EpisodeScheduler.__call__", verify=False, note="abstract: returns the scenario of an episode (deep copy / parsed YAML), changes nothing",
         ensures=[], modifies=[], emits=[("schedule", ["self", "episode_num"])], exact_events=True, allocates=True)
contract(f"{G}::PrimaiteGame.from_config", verify=False,
         note="the loader (C20): builds a NEW object graph from the scenario dictionary and writes no pre-existing object "
              "(its two class-level writes are known finding F15); the new game starts at tick 0 (PrimaiteGame.__init__; step_counter has "
              "a single writer, advance_timestep -- writer frame below)",
         ensures=["fresh(result)", "result.step_counter == 0"], modifies=[],
         emits=[("build", ["cfg"])], exact_events=True, allocates=True)
contract(f"{G}::PrimaiteGame.setup_for_episode", verify=False, note="final per-episode configuration of the NEW simulation",
         ensures=[], modifies=["heap"], preserves=ENV_STATE, emits=[("setup", ["self", "episode"])], exact_events=True, allocates=True)
writers("C01", "step_counter", [f"{G}::PrimaiteGame.advance_timestep", f"{G}::PrimaiteGame.__init__"],
        why="simulated time moves only in advance_timestep (exactly one tick, proved) and starts at 0 in a new game")
writers("C01", "episode_counter", [f"{ENV}::PrimaiteGymEnv.reset", f"{ENV}::PrimaiteGymEnv.__init__",
                                   f"{SES}/ray_envs.py::PrimaiteRayMARLEnv.reset", f"{SES}/ray_envs.py::PrimaiteRayMARLEnv.__init__"],
        why="the episode number changes only in reset")
attr_types({"PrimaiteIO.settings": "PrimaiteIO.Settings"})
contract(f"{ENV}::PrimaiteGymEnv.reset", props=["C01", "C03", "C04"],
         requires=["self._agent_name in self.game.rl_agents"] + UA_REQ,
         raises={"ValueError": "seed is not None and seed < -1"},
         ensures=[# C03 "re-seeding on reset reproduces the same episode": a given seed (gymnasium seeds are >= 0) seeds both generators, first thing
                  ("reseeded_when_a_seed_is_given", "implies(seed is not None and seed >= 0, event_kind(old(n_events())) == ev('seed_python') and event_arg(old(n_events()), 0) == seed"
                                                    " and event_kind(old(n_events()) + 1) == ev('seed_numpy') and event_arg(old(n_events()) + 1, 0) == seed)"),
                  ("no_seed_no_reseeding", "implies(seed is None, forall(e, old(n_events()), n_events(), event_kind(e) != ev('seed_python') and event_kind(e) != ev('seed_numpy')))"),
                  ("next_episode", "self.episode_counter == old(self.episode_counter) + 1"),
                  # C04/C01: the game after reset is a NEW object graph built from the scheduler's scenario for the new episode number, at tick 0
                  ("new_game_from_this_episodes_scenario",
                   "fresh(self.game) and self.game.step_counter == 0 and n_events() >= old(n_events()) + 3"
                   " and event_kind(n_events() - 3) == ev('schedule') and event_arg(n_events() - 3, 0) is old(self.episode_scheduler)"
                   " and event_arg(n_events() - 3, 1) == old(self.episode_counter) + 1 and event_kind(n_events() - 2) == ev('build')"
                   " and event_kind(n_events() - 1) == ev('setup') and event_arg(n_events() - 1, 0) is self.game and event_arg(n_events() - 1, 1) == old(self.episode_counter) + 1"),
                  ("total_reward_recorded", "self.total_reward_per_episode[old(self.episode_counter)] == old(self.game.rl_agents[self._agent_name].reward_function.total_reward)")],
         modifies=["heap"], allocates=True)

# ---- an application action that must not take the step down: the web browser -----------------------------------------------------------
# (C01 "a step completes without raising ... actions aimed at missing or mis-configured components"; found by a seeded-change
# exploration: a browser without a configured URL asked the DNS client about the domain None, and pydantic refused the request object)
WB = "src/primaite/simulator/system/applications/web_browser.py"
DNSC = "src/primaite/simulator/system/services/dns/dns_client.py"
contract(f"{DNSC}::DNSClient.check_domain_exists", verify=False,
         note="DNS look-up; builds DNSRequest(domain_name_request=target_domain), a pydantic model whose field is a str: a None domain raises ValidationError",
         requires=["target_domain is not None"], ensures=["implies(result, target_domain in self.dns_cache)"], modifies=["heap"],
         preserves=["WebBrowser.config", "WebBrowser.ConfigSchema.target_url"], allocates=True)
contract(f"{WB}::WebBrowser.send", verify=False, note="hands the request to the session manager; the response arrives in latest_response (always a packet)",
         ensures=["self.latest_response is not None"], modifies=["heap"], allocates=True)
attr_types({"DNSClient.dns_cache": "Dict[str, IPv4Address]"})
contract(f"{WB}::WebBrowser.get_webpage", props=["C01"],
         requires=["self.software_manager is not None", "'dns-client' in self.software_manager.software"],
         ensures=[("dead_application_does_nothing", "implies(not old(host_on(self) and self.operating_state == ApplicationOperatingState.RUNNING), result == False and unchanged())")],
         modifies=["heap"], allocates=True)

# ---- the per-step metadata record: what goes to json.dump is JSON-typed --------------------------------------------------------------------
# (`with open(...)` and json.dump are outside the subset; the record is built by one statement, taken as a block region: the action a
# learning library hands to step() is typically a numpy integer, which json.dump refuses -- the record must hold plain ints)
contract("src/primaite/session/environment.py::PrimaiteGymEnv._write_step_metadata_json#record", props=["C01"],
         region=("block", {"start": "data = {", "count": 1}),
         types={"self": "PrimaiteGymEnv", "step": "int", "action": "Any", "reward": "Any", "state": "Dict[str, Any]"},
         requires=["isinstance(action, int) or isinstance(action, float)", "isinstance(reward, int) or isinstance(reward, float)"],
         ensures=[("action_and_reward_are_plain_ints", "isinstance(data['action'], int) and isinstance(data['reward'], int)"),
                  ("record_complete", "data['episode'] == self.episode_counter and data['step'] == step and data['state'] is state")],
         modifies=[], allocates=True)

# ---- a red application whose host lost its database client must not take the step down (C01: actions aimed at missing components) -------------
RS = "src/primaite/simulator/system/applications/red_applications/ransomware_script.py"
from pyvc.contracts import ufun as _ufun  # noqa: E402
_ufun("host_db_client_of", 1, "any")
contract(f"{RS}::RansomwareScript._host_db_client", verify=False, note="software-manager lookup of the host's database client: None when it is not installed",
         types={"return": "Optional[DatabaseClient]"},  # annotated `-> DatabaseClient`, but `software.get(...)` yields None for a missing client
         # the same client (or None) every time it is asked within one call of the script
         ensures=["result is cast(host_db_client_of(self), 'Optional[DatabaseClient]')"], modifies=[])
contract(f"{RS}::RansomwareScript._establish_db_connection", verify=False, note="opens a connection through the database client (network exchange)",
         ensures=[], modifies=["heap"], exact_events=True, allocates=True)
contract("src/primaite/simulator/system/applications/database_client.py::DatabaseClientConnection.query", verify=False,
         note="query over the simulated network", ensures=[], modifies=["heap"], exact_events=True, allocates=True)
contract(f"{RS}::RansomwareScript._perform_ransomware_encrypt", props=["C01"],
         ensures=[("no_client_no_attack", "implies(old(self._host_db_client) is None, result == False and unchanged())")],
         modifies=["heap"], allocates=True)

# ---- every action type answered without an exception (bounded native sweep, the totality side of bounded/action_routes.py) ----------------------
from pyvc.contracts import native_bounded as _native_bounded  # noqa: E402
_native_bounded("C01", "action-total", "bounded/action_total.py",
                "every registered action type x two nodes of every (node class, installed software) signature of the shipped data_manipulation and uc7 scenarios x up to 12 parameter choices naming components that exist on the node",
                "the real form_request and the real Simulation.apply_request on a forked copy of the built game: answering the request raises nothing")
