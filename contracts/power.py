"""C12: power states gate everything a node does, with the configured timing."""
from pyvc.contracts import contract, spec, inline, attr_types, writers, dispatch_contract

B = "src/primaite/simulator/network/hardware/base.py"
ON, OFF, BOOT, DOWN = ("NodeOperatingState.ON", "NodeOperatingState.OFF", "NodeOperatingState.BOOTING", "NodeOperatingState.SHUTTING_DOWN")

spec("nic_at(node, j)", "dict_val(node.network_interfaces, j)")
# "While a node is not ON its interfaces are disabled"
spec("nics_disabled(node)", "forall(j, 0, len(node.network_interfaces), not nic_at(node, j).enabled)")
spec("I2(node)", f"implies(node.operating_state != {ON}, nics_disabled(node))")
# "once it is OFF no service is running and no application is open"
spec("svc_at(node, j)", "dict_val(node.services, j)")
spec("app_at(node, j)", "dict_val(node.applications, j)")
spec("software_down(node)", "forall(j, 0, len(node.services), svc_at(node, j).operating_state != ServiceOperatingState.RUNNING"
                            " and svc_at(node, j).operating_state != ServiceOperatingState.PAUSED)"
                            " and forall(j, 0, len(node.applications), app_at(node, j).operating_state != ApplicationOperatingState.RUNNING)")

NIC_MOD = ["NetworkInterface.enabled", "Link.current_load"]
SW_MOD = ["Service.operating_state", "Application.operating_state", "Software.health_state_actual", "Service.restart_countdown",
          "Application.install_countdown"]

# ---- interfaces ---------------------------------------------------------------------------------------------------
contract(f"{B}::NetworkInterface.disable", verify=False,
         note="abstract: base contract for every interface kind; the wired implementation is proved against it below",
         ensures=["not self.enabled", "result == True"], modifies=["self.enabled", "Link.current_load"])
contract(f"{B}::NetworkInterface.enable", verify=False,
         note="abstract: enabling may be refused (no node, node not ON, no link); it never disables",
         ensures=["implies(old(self.enabled), self.enabled)", "implies(result, self.enabled)"],
         modifies=["self.enabled", "Link.current_load"])
contract(f"{B}::WiredNetworkInterface.disable",
         props=["C12", "C06", "C18"],
         # wiring established by Link.__init__: an interface's link has that interface as one of its two ends
         requires=["self._connected_link is None or self._connected_link.endpoint_a is self or self._connected_link.endpoint_b is self",
                   # link invariant "a down link carries nothing" for this interface's link
                   "implies(not self.enabled and self._connected_link is not None, self._connected_link.current_load == 0)"],
         ensures=[("disabled", "not self.enabled"), ("returns_true", "result == True"),
                  # "down links carry nothing": once an end is disabled the link's load is gone
                  ("down_link_empty", "implies(self._connected_link is not None, self._connected_link.current_load == 0)")],
         modifies=["self.enabled", "Link.current_load"])
contract(f"{B}::WiredNetworkInterface.enable",
         props=["C12", "C06"],
         ensures=[("only_on_live_node_with_link",
                   f"self.enabled == (old(self.enabled) or (self._connected_node is not None and self._connected_node.operating_state == {ON}"
                   " and self._connected_link is not None))"),
                  ("result", "result == self.enabled")],
         modifies=["self.enabled", "self.pcap", "Link.current_load"], allocates=True)

contract(f"{B}::Node._NodeIsOnValidator.__call__", props=["C12", "C11", "C05"],
         ensures=[("rule", f"result == (self.node.operating_state == {ON})")], modifies=[])
contract(f"{B}::Node._NodeIsOffValidator.__call__", props=["C12", "C11", "C05"],
         ensures=[("rule", f"result == (self.node.operating_state == {OFF})")], modifies=[])
contract(f"{B}::NetworkInterface._EnabledValidator.__call__", props=["C11", "C05"],
         ensures=[("rule", "result == self.network_interface.enabled")], modifies=[])
contract(f"{B}::NetworkInterface._DisabledValidator.__call__", props=["C11", "C05"],
         ensures=[("rule", "result == (not self.network_interface.enabled)")], modifies=[])

# ---- software fan-out -----------------------------------------------------------------------------------------------
contract(f"{B}::Node._shut_down_actions",
         props=["C12"],
         ensures=[("software_down", "software_down(self)")],
         modifies=SW_MOD,
         loops={0: {"inv": [("stopped_so_far", "forall(j, 0, _i, svc_at(self, j).operating_state != ServiceOperatingState.RUNNING"
                                               " and svc_at(self, j).operating_state != ServiceOperatingState.PAUSED)")]},
                1: {"inv": [("services_stay_down", "forall(j, 0, len(self.services), svc_at(self, j).operating_state != ServiceOperatingState.RUNNING"
                                                   " and svc_at(self, j).operating_state != ServiceOperatingState.PAUSED)"),
                            ("closed_so_far", "forall(j, 0, _i, app_at(self, j).operating_state != ApplicationOperatingState.RUNNING)")]}})

contract(f"{B}::Node.power_off",
         props=["C12", "C06"],
         ensures=[("instant", f"implies(self.config.shut_down_duration <= 0, self.operating_state == {OFF} and result == True and software_down(self))"),
                  ("timed", f"implies(self.config.shut_down_duration > 0 and old(self.operating_state) == {ON},"
                            f" self.operating_state == {DOWN} and self.config.shut_down_countdown == self.config.shut_down_duration and result == True)"),
                  ("refused", f"implies(self.config.shut_down_duration > 0 and old(self.operating_state) != {ON},"
                              " self.operating_state == old(self.operating_state) and result == False and unchanged())"),
                  ("interfaces_disabled", "implies(result, nics_disabled(self))")],
         modifies=NIC_MOD + SW_MOD + ["self.operating_state", "self.config.shut_down_countdown"],
         loops={0: {"inv": [("disabled_so_far", "forall(j, 0, _i, not nic_at(self, j).enabled)")], "modifies": NIC_MOD},
                1: {"inv": [("disabled_so_far", "forall(j, 0, _i, not nic_at(self, j).enabled)")], "modifies": NIC_MOD}})

contract(f"{B}::Node.power_on",
         props=["C12"],
         ensures=[("instant", f"implies(self.config.start_up_duration <= 0, self.operating_state == {ON} and result == True)"),
                  ("timed", f"implies(self.config.start_up_duration > 0 and old(self.operating_state) == {OFF},"
                            f" self.operating_state == {BOOT} and self.config.start_up_countdown == self.config.start_up_duration and result == True)"),
                  ("refused", f"implies(self.config.start_up_duration > 0 and old(self.operating_state) != {OFF},"
                              " self.operating_state == old(self.operating_state) and result == False and unchanged())")],
         modifies=NIC_MOD + SW_MOD + ["self.operating_state", "self.config.start_up_countdown"],
         loops={0: {"inv": [], "modifies": NIC_MOD}})

contract(f"{B}::Node._start_up_actions",
         props=["C12"],
         ensures=[], modifies=SW_MOD,
         loops={0: {"inv": []}, 1: {"inv": []}})

writers("C12", "start_up_countdown", [f"{B}::Node.power_on", f"{B}::Node.apply_timestep"], why="boot timer")
writers("C12", "shut_down_countdown", [f"{B}::Node.power_off", f"{B}::Node.apply_timestep"], why="shut-down timer")

# ---- Node.apply_timestep: the timed transitions ------------------------------------------------------------------------------
# what a tick of software / interfaces / the file system may do: anything, except touching a node's power state or timers
# (justified by the whole-tree writer frames on operating_state and the two countdowns, C12/C13)
NODE_POWER = ["Node.operating_state", "Node.config", "Node.network_interfaces", "Node.services", "Node.applications", "Node.processes",
              "Node.file_system", "Node.node_scan_countdown", "Node.red_scan_countdown",
              "Node.ConfigSchema.start_up_countdown", "Node.ConfigSchema.shut_down_countdown", "Node.ConfigSchema.is_resetting",
              "Node.ConfigSchema.start_up_duration", "Node.ConfigSchema.shut_down_duration", "Node.ConfigSchema.node_scan_duration"]
SV_ = "src/primaite/simulator/system/services/service.py"
AP_ = "src/primaite/simulator/system/applications/application.py"
SW_ = "src/primaite/simulator/system/software.py"
FS_ = "src/primaite/simulator/file_system/file_system.py"
PR_ = "src/primaite/simulator/system/processes/process.py"
# Modelled as touching software / file / interface state only (their network side effects are not modelled): sound for the
# power-state postconditions below because no function outside Node writes a node's power fields (writer frames).
TICK_MOD = ["Service.operating_state", "Service.restart_countdown", "Application.operating_state", "Application.install_countdown",
            "Application.num_executions", "Software.health_state_actual", "Software.health_state_visible", "Software._fixing_countdown",
            "Software.fixing_count", "Software.revealed_to_red", "Software.scanning_count",
            "FileSystemItemABC.health_status", "FileSystemItemABC.visible_health_status", "FileSystemItemABC.revealed_to_red",
            "FileSystemItemABC.deleted", "File.num_access", "Folder.scan_countdown", "Folder.red_scan_countdown",
            "Folder.restore_countdown", "Folder._scanned_this_step"]
for key in (f"{SV_}::Service.apply_timestep", f"{AP_}::Application.apply_timestep", f"{SW_}::Software.apply_timestep",
            f"{SW_}::Software.scan", f"{SW_}::Software.reveal_to_red"):
    dispatch_contract(key, ensures=[], modifies=TICK_MOD)
for nm in ("apply_timestep", "reveal_to_red"):  # FileSystem.scan is proved in health.py (C14)
    contract(f"{FS_}::FileSystem.{nm}", verify=False, note="folder/file fan-out: file-system state only", ensures=[], modifies=TICK_MOD)
contract(f"{B}::NetworkInterface.apply_timestep", verify=False, note="interface tick: no state", ensures=[], modifies=[])
dispatch_contract(f"{B}::NetworkInterface.apply_timestep", ensures=[], modifies=[])
contract(f"{PR_}::Process.apply_timestep", verify=False, note="process tick", ensures=[], modifies=TICK_MOD)
contract(f"{PR_}::Process.scan", verify=False, note="process scan", ensures=[], modifies=TICK_MOD)
contract(f"{PR_}::Process.reveal_to_red", verify=False, note="process reveal", ensures=[], modifies=TICK_MOD)

LOOPS = {k: {"inv": [], "modifies": TICK_MOD + ["NetworkInterface.enabled", "Link.current_load", "NetworkInterface.pcap"]} for k in range(0, 12)}
contract(f"{B}::Node.apply_timestep", props=["C12"],
         # scope: ticks during which no node scan / reveal is pending (their fan-out multiplies the paths without touching
         # the power state; the scan timer itself is covered by the writer frame in C14)
         requires=["self.node_scan_countdown == 0", "self.red_scan_countdown == 0"],
         ensures=[
             ("boot_continues", f"implies(old(self.operating_state) == {BOOT} and old(self.config.start_up_countdown) > 0,"
                                f" self.operating_state == {BOOT} and self.config.start_up_countdown == old(self.config.start_up_countdown) - 1)"),
             ("boot_completes", f"implies(old(self.operating_state) == {BOOT} and old(self.config.start_up_countdown) <= 0, self.operating_state == {ON})"),
             ("shutdown_continues", f"implies(old(self.operating_state) == {DOWN} and old(self.config.shut_down_countdown) > 0,"
                                    f" self.operating_state == {DOWN} and self.config.shut_down_countdown == old(self.config.shut_down_countdown) - 1)"),
             ("shutdown_completes", f"implies(old(self.operating_state) == {DOWN} and old(self.config.shut_down_countdown) <= 0 and not old(self.config.is_resetting),"
                                    f" self.operating_state == {OFF})"),
             # a reset is a shutdown followed by an automatic start, exactly once
             ("reset_restarts_once", f"implies(old(self.operating_state) == {DOWN} and old(self.config.shut_down_countdown) <= 0 and old(self.config.is_resetting),"
                                     f" self.config.is_resetting == False and self.operating_state == ({ON} if self.config.start_up_duration <= 0 else {BOOT}))"),
             ("on_stays_on", f"implies(old(self.operating_state) == {ON}, self.operating_state == {ON})"),
             ("off_stays_off", f"implies(old(self.operating_state) == {OFF}, self.operating_state == {OFF})"),
         ],
         modifies=TICK_MOD + NIC_MOD + SW_MOD + ["NetworkInterface.pcap", "self.operating_state", "self.config.start_up_countdown", "self.config.shut_down_countdown",
                                                   "self.config.is_resetting", "self.node_scan_countdown", "self.red_scan_countdown"],
         allocates=True, loops=LOOPS, budget_s=900, split=9)

# ---- "while a node is not ON ... every request to it other than start-up is refused": every route of a node's own request manager is gated
from pyvc.contracts import scan  # noqa: E402
from pyvc import scans as _scans  # noqa: E402
scan("C12", "node-routes-gated", lambda: _scans.node_routes_gated({}))

# ---- reset = a shutdown followed by an automatic start, also for a zero shut-down duration -------------------------------------------------
contract(f"{B}::Node.reset", props=["C12"],
         ensures=[("timed_shutdown_then_restart_flag", f"implies(old(self.operating_state) == {ON} and self.config.shut_down_duration > 0,"
                                                       f" result == True and self.operating_state == {DOWN} and self.config.is_resetting == True)"),
                  # with a zero shut-down duration the shutdown is over at once, so the automatic start has already begun
                  ("instant_shutdown_restarts_at_once", f"implies(old(self.operating_state) == {ON} and self.config.shut_down_duration <= 0,"
                                                        f" result == True and self.operating_state == ({ON} if self.config.start_up_duration <= 0 else {BOOT})"
                                                        " and self.config.is_resetting == False)"),
                  ("only_a_running_node_resets", f"implies(old(self.operating_state) != {ON}, result == False and unchanged())")],
         modifies=NIC_MOD + SW_MOD + ["self.operating_state", "self.config.shut_down_countdown", "self.config.start_up_countdown", "self.config.is_resetting"])
