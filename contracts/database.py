"""C17: database -- password-gated connections, connection-gated queries, data health."""
from pyvc.contracts import contract, spec, inline, attr_types, writers, dispatch_contract

DB = "src/primaite/simulator/system/services/database/database_service.py"
SW = "src/primaite/simulator/system/software.py"
HS = "SoftwareHealthState"
FH = "FileSystemItemHealthStatus"

attr_types({"SessionManager.sessions_by_uuid": "Dict[str, Session]", "SessionManager.sessions_by_key": "Dict[Any, Session]"})

# ---- connections (IOSoftware.add_connection): never more than max_sessions ----------------------------------------------------------
contract(f"{SW}::Software._get_session_details", verify=False, note="session lookup by id", ensures=[], modifies=[])
contract(f"{SW}::IOSoftware.add_connection", props=["C17"],
         ensures=[("at_capacity_refused", f"implies(old(len(self._connections)) >= self.max_sessions, result == False"
                                          f" and len(self._connections) == old(len(self._connections)) and self.health_state_actual == {HS}.OVERWHELMED)"),
                  ("issued_only_below_capacity", "implies(result, connection_id in self._connections and old(len(self._connections)) < self.max_sessions"
                                                 " and len(self._connections) <= old(len(self._connections)) + 1)"),
                  ("refused_changes_no_connection", "implies(not result, len(self._connections) == old(len(self._connections)))"),
                  ("never_above_capacity", "implies(old(len(self._connections)) <= self.max_sessions, len(self._connections) <= self.max_sessions)")],
         modifies=["self._connections{*}", "self.health_state_actual"], allocates=True)

# ---- connect: 200 exactly for the right password on a running, not overwhelmed service with a free slot ---------------------------------
spec("db_eligible(s)", f"s.health_state_actual == {HS}.GOOD or s.health_state_actual == {HS}.FIXING or s.health_state_actual == {HS}.COMPROMISED")
contract(f"{DB}::DatabaseService._process_connect", props=["C17"],
         ensures=[("not_running_404", "implies(old(self.operating_state) != ServiceOperatingState.RUNNING, result['status_code'] == 404 and result['response'] == False"
                                      " and len(self._connections) == old(len(self._connections)))"),
                  ("wrong_password_401", "implies(old(self.operating_state) == ServiceOperatingState.RUNNING and old(db_eligible(self)) and self.config.db_password != password,"
                                         " result['status_code'] == 401 and result['response'] == False and len(self._connections) == old(len(self._connections)))"),
                  ("ok_only_with_password_and_slot", "implies(result['status_code'] == 200, old(self.operating_state) == ServiceOperatingState.RUNNING and old(db_eligible(self))"
                                                     " and self.config.db_password == password and old(len(self._connections)) < self.max_sessions"
                                                     " and result['connection_id'] in self._connections)"),
                  ("response_flag", "result['response'] == (result['status_code'] == 200)"),
                  ("connection_only_on_200", "implies(result['status_code'] != 200, len(self._connections) == old(len(self._connections)))")],
         modifies=["self._connections{*}", "self.health_state_actual"], emits=[("connect", ["self", "password"])], exact_events=True, allocates=True)

# ---- queries: destructive queries change the stored file's health; reads of damaged data fail ----------------------------------------------
inline(f"{DB}::DatabaseService.db_file")
contract(f"{DB}::DatabaseService._return_database_folder", verify=False, note="the folder holding the live database file exists (C15 structural invariant)",
         ensures=["result is not None"], modifies=[])
from pyvc.contracts import ufun  # noqa: E402
ufun("fs_lookup", 3, "any")
contract("src/primaite/simulator/file_system/file_system.py::FileSystem.get_file", verify=False,
         note="file lookup by names: a function of the (unchanged) folder structure -- used only where no file is created/deleted in between",
         ensures=["result is cast(fs_lookup(self, folder_name, file_name), 'Optional[File]')"], modifies=[])
contract("src/primaite/simulator/file_system/file_system.py::FileSystem.get_folder_by_id", verify=False, note="folder lookup", ensures=[], modifies=[])
spec("dbf(s)", "s.file_system.get_file(folder_name='database', file_name='database.db')")
contract(f"{DB}::DatabaseService._process_sql", props=["C17"], max_paths=400,
         ensures=[("unhealthy_service_refuses", f"implies(old(self.health_state_actual) != {HS}.GOOD and result['status_code'] != 404, result['status_code'] == 500 and unchanged())"),
                  ("unknown_query_changes_nothing", "implies(query != 'SELECT' and query != 'DELETE' and query != 'ENCRYPT' and query != 'INSERT'"
                                                    " and query != 'SELECT * FROM pg_stat_activity', result['status_code'] != 200 and unchanged())"),
                  ("select_insert_change_nothing", "implies(query == 'SELECT' or query == 'INSERT', unchanged())"),
                  ("delete_compromises_the_data", f"implies(query == 'DELETE' and old(self.health_state_actual) == {HS}.GOOD and dbf(self) is not None,"
                                                  f" result['status_code'] == 200 and dbf(self).health_status == {FH}.COMPROMISED)"),
                  ("encrypt_corrupts_the_data", f"implies(query == 'ENCRYPT' and old(self.health_state_actual) == {HS}.GOOD and dbf(self) is not None,"
                                                f" result['status_code'] == 200 and dbf(self).health_status == {FH}.CORRUPT)"),
                  ("read_of_compromised_data_fails", f"implies(query == 'SELECT' and dbf(self) is not None and old(dbf(self).health_status) == {FH}.COMPROMISED,"
                                                     " result['status_code'] != 200 and result['data'] == False)"),
                  ("read_returns_data_only_when_good", f"implies(query == 'SELECT' and result['data'] == True, old(self.health_state_actual) == {HS}.GOOD"
                                                       f" and old(dbf(self).health_status) == {FH}.GOOD)"),
                  ("missing_file_404", "implies(dbf(self) is None, result['status_code'] == 404 and unchanged())")],
         modifies=["File.health_status", "File.num_access", "Folder.health_status", "FileSystem.num_file_creations", "FileSystem.num_file_deletions"],
         emits=[("sql", ["self", "connection_id"])], exact_events=True, allocates=True)

# ---- receive: queries only on live connections, nothing at all while the service cannot act -------------------------------------------------
inline(f"{SW}::IOSoftware.connections")
contract("src/primaite/simulator/system/core/software_manager.py::SoftwareManager.send_payload_to_session_manager", verify=False,
         note="hands a payload to the session manager (network side effects; does not touch any software's connection table)",
         ensures=[], modifies=["heap"], preserves=["IOSoftware._connections", "Dict[str, Dict]{*}", "IOSoftware.health_state_actual", "IOSoftware.operating_state"],
         emits=[("send", ["payload", "session_id"])], exact_events=True, allocates=True)
contract(f"{SW}::IOSoftware.terminate_connection", props=["C17"],
         requires=["self.software_manager is not None",
                   "implies(connection_id in self._connections, 'session_id' in self._connections[connection_id]"
                   " and self._connections[connection_id] is not self._connections)"],
         ensures=[("closed_connection_is_gone", "implies(result, not (connection_id in self._connections))"),
                  ("only_that_connection", "same_dict_except(self._connections, connection_id)")],
         modifies=["heap"], preserves=["IOSoftware._connections", "IOSoftware.health_state_actual", "IOSoftware.operating_state"],
         emits=[("terminate", ["self", "connection_id"])], exact_events=True, allocates=True)

contract(f"{DB}::DatabaseService.send", verify=False, note="reply path (network side effects; no connection table is touched)",
         ensures=[], modifies=["heap"], preserves=["IOSoftware._connections", "Dict[str, Dict]{*}", "IOSoftware.health_state_actual", "IOSoftware.operating_state"],
         emits=[("reply", ["self", "payload", "session_id"])], exact_events=True, allocates=True)
contract(f"{DB}::DatabaseService.receive", props=["C17"], types={"payload": "Dict[str, Any]", "kwargs.frame": "Frame"},
         requires=["self.software_manager is not None",
                   # well-formed client payloads (DatabaseClient builds them): the keys each type is read with are present
                   "implies(payload.get('type') == 'disconnect', 'connection_id' in payload)",
                   "implies(payload.get('type') == 'sql', 'sql' in payload and 'uuid' in payload and 'connection_id' in payload)",
                   "implies('connection_id' in payload and payload['connection_id'] in self._connections,"
                   " 'session_id' in self._connections[payload['connection_id']] and 'ip_address' in self._connections[payload['connection_id']]"
                   " and self._connections[payload['connection_id']] is not self._connections)"],
         ensures=[("dead_service_does_nothing", "implies(not old(host_on(self) and self.operating_state == ServiceOperatingState.RUNNING),"
                                               " result == False and unchanged() and n_events() == old(n_events()))"),
                  ("queries_only_on_live_connections", "forall(i, old(n_events()), n_events(), implies(event_kind(i) == ev('sql'),"
                                                       " old(payload.get('connection_id') in self._connections) and event_arg(i, 1) == old(payload['connection_id'])))"),
                  ("connect_only_on_request", "forall(i, old(n_events()), n_events(), implies(event_kind(i) == ev('connect'), old(payload['type']) == 'connect_request' and event_arg(i, 1) == old(payload.get('password'))))")],
         modifies=["heap"], allocates=True)

# ---- restore: "restoring a backup that was taken while the data was healthy returns the database file to good health" ------------------------
# The downloaded backup replaces the database file: FileSystem.copy_file copies through pydantic's model_dump (outside the subset), so the
# copy is an assumed contract that leaves a ghost event, and what is proved about restore_backup is that it reports success only after
# that copy of downloads/database.db into the database folder, and that the service is then in good health.
FSY = "src/primaite/simulator/file_system/file_system.py"
contract("src/primaite/simulator/system/services/ftp/ftp_client.py::FTPClient.request_file", verify=False,
         note="download over the simulated network (FTP client/server, sessions, links): any effect on the heap; whether it succeeded is the result",
         ensures=[], modifies=["heap"], exact_events=True, allocates=True)
contract(f"{FSY}::FileSystem.copy_file", verify=False,
         note="copies a file into another folder by re-creating it from model_dump() (pydantic reflection, outside the subset); leaves a ghost event",
         ensures=[], modifies=["heap"], emits=[("copy_file", ["src_folder_name", "src_file_name", "dst_folder_name"])], exact_events=True, allocates=True)
contract(f"{FSY}::FileSystem.restore_file", verify=False, note="restores a file in place (C15 covers Folder.restore_file); here: any effect on the heap, no copy",
         ensures=[], modifies=["heap"], exact_events=True, allocates=True)
dispatch_contract(f"{FSY}::FileSystem.delete_file", ensures=[], modifies=["heap"], exact_events=True, allocates=True)
contract(f"{DB}::DatabaseService.restore_backup", props=["C17"],
         # the structural preconditions of FileSystem.delete_file (C15) are not carried across the download, which may do anything:
         # the call is taken at its call-site contract (any effect on the heap)
         use_dispatch=["delete_file"],
         requires=["self.software_manager is not None", "self.file_system is not None"],
         ensures=[("success_only_after_copying_the_backup_over", "implies(result, exists(i, old(n_events()), n_events(), event_kind(i) == ev('copy_file')"
                                                                 " and event_arg(i, 0) == 'downloads' and event_arg(i, 1) == 'database.db' and event_arg(i, 2) == 'database'))"),
                  ("service_healthy_after_restore", f"implies(result, self.health_state_actual == {HS}.GOOD)"),
                  ("not_running_refused", "implies(old(self.operating_state) != ServiceOperatingState.RUNNING, result == False)")],
         modifies=["heap"], allocates=True)

# the download reports success exactly when the server answered the RETR with status OK (the rest of request_file is the network exchange)
contract("src/primaite/simulator/system/services/ftp/ftp_client.py::FTPClient.request_file#verdict", props=["C17"],
         region=("block", {"start": "if payload.status_code == FTPStatusCode.OK:", "count": 1}),
         types={"self": "FTPClient", "payload": "FTPPacket", "src_folder_name": "str", "src_file_name": "str"},
         ensures=[("success_iff_the_server_said_ok", "result == (payload.status_code == FTPStatusCode.OK)")],
         modifies=[], allocates=True)
