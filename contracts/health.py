"""C14: visible health changes only by scanning; fixes and scans take their set time (software and folder side)."""
from pyvc.contracts import contract, spec, inline, attr_types, writers, dispatch_contract

SW = "src/primaite/simulator/system/software.py"
FO = "src/primaite/simulator/file_system/folder.py"
FI = "src/primaite/simulator/file_system/file.py"
DB = "src/primaite/simulator/system/services/database/database_service.py"
HS = "SoftwareHealthState"
FH = "FileSystemItemHealthStatus"

# ---- software ------------------------------------------------------------------------------------------------------------
contract(f"{SW}::Software.scan", props=["C14"],
         ensures=[("visible_is_actual", "self.health_state_visible == self.health_state_actual and result == True"),
                  ("actual_untouched", "self.health_state_actual == old(self.health_state_actual)")],
         modifies=["self.health_state_visible"])
contract(f"{SW}::Software.fix", props=["C14"],
         ensures=[("starts_fix", f"implies(old(self.health_state_actual) == {HS}.COMPROMISED or old(self.health_state_actual) == {HS}.GOOD,"
                                 f" self.health_state_actual == {HS}.FIXING and self._fixing_countdown == self.config.fixing_duration and result == True)"),
                  ("refused_otherwise", f"implies(not (old(self.health_state_actual) == {HS}.COMPROMISED or old(self.health_state_actual) == {HS}.GOOD),"
                                        " self.health_state_actual == old(self.health_state_actual) and self._fixing_countdown == old(self._fixing_countdown) and result == False)"),
                  ("visible_untouched", "self.health_state_visible == old(self.health_state_visible)")],
         modifies=["self.health_state_actual", "self._fixing_countdown"])
# one tick of a running fix: the countdown goes down by one; when it has run out the software is GOOD again
contract(f"{SW}::Software._update_fix_status", props=["C14"],
         requires=["self._fixing_countdown is not None"],
         ensures=[("completes", f"implies(old(self._fixing_countdown) - 1 <= 0, self.health_state_actual == {HS}.GOOD and self._fixing_countdown is None"
                                " and self.fixing_count == old(self.fixing_count) + 1)"),
                  ("continues", "implies(old(self._fixing_countdown) - 1 > 0, self.health_state_actual == old(self.health_state_actual)"
                                " and self._fixing_countdown == old(self._fixing_countdown) - 1 and self.fixing_count == old(self.fixing_count))"),
                  ("visible_untouched", "self.health_state_visible == old(self.health_state_visible)")],
         modifies=["self.health_state_actual", "self._fixing_countdown", "self.fixing_count"])
contract(f"{SW}::Software.apply_timestep", props=["C14"],
         requires=[f"implies(self.health_state_actual == {HS}.FIXING, self._fixing_countdown is not None)"],
         ensures=[("only_fixing_ticks", f"implies(old(self.health_state_actual) != {HS}.FIXING, self.health_state_actual == old(self.health_state_actual)"
                                        " and self._fixing_countdown == old(self._fixing_countdown))"),
                  ("fix_done_when_countdown_out", f"implies(old(self.health_state_actual) == {HS}.FIXING, self.health_state_actual == ({HS}.GOOD if old(self._fixing_countdown) - 1 <= 0 else {HS}.FIXING))"),
                  ("visible_untouched", "self.health_state_visible == old(self.health_state_visible)")],
         modifies=["self.health_state_actual", "self._fixing_countdown", "self.fixing_count"])

# ---- folders ---------------------------------------------------------------------------------------------------------------
contract(f"{FO}::Folder.get_file_by_id", props=["C14", "C15"],
         ensures=[("live_lookup", "implies(not include_deleted, result is (self.files[file_uuid] if file_uuid in self.files else None))")],
         modifies=[])
contract(f"{FO}::Folder.scan", props=["C14"],
         requires=["forall(j, 0, len(self.files), dict_val(self.files, j).folder is not None)"],
         ensures=[("deleted_refused", "implies(old(self.deleted), result == False and self.visible_health_status == old(self.visible_health_status) and self.scan_countdown == old(self.scan_countdown))"),
                  # a timed scan request only arms the countdown (and is ignored while one is in progress): nothing visible changes yet
                  ("timed_scan_arms_countdown", "implies(not old(self.deleted) and not instant_scan, self.visible_health_status == old(self.visible_health_status)"
                                                " and self.scan_countdown == (self.scan_duration if old(self.scan_countdown) <= 0 else old(self.scan_countdown)) and result == True)"),
                  ("actual_untouched", "self.health_status == old(self.health_status)"),
                  # what the folder observation relies on between scans (C09): a change of the visible status is announced in the
                  # folder's reported state (`scanned_this_step`), also when it comes from an instant scan (the node-level scan)
                  ("a_change_of_visible_health_is_announced", "implies(self.visible_health_status != old(self.visible_health_status), self._scanned_this_step == True)")],
         modifies=["self.scan_countdown", "self.visible_health_status", "self._scanned_this_step", "File.visible_health_status", "File.num_access"],
         emits=[("folder_scan", ["self", "instant_scan"])], exact_events=True,
         loops={0: {"inv": [("countdown_kept", "self.scan_countdown == old(self.scan_countdown) and self.health_status == old(self.health_status)")],
                    "modifies": ["self.visible_health_status", "File.visible_health_status", "File.num_access"]}})
contract(f"{FO}::Folder._scan_timestep", props=["C14"],
         requires=["forall(j, 0, len(self.files), dict_val(self.files, j).folder is not None and not dict_val(self.files, j).deleted)"],
         ensures=[("ticks_down", "self.scan_countdown == (old(self.scan_countdown) - 1 if old(self.scan_countdown) >= 0 else old(self.scan_countdown))"),
                  # "a folder's visible health changes only when a scan of it completes"
                  ("visible_only_on_completion", "implies(not (old(self.scan_countdown) >= 0 and old(self.scan_countdown) - 1 == 0),"
                                                 " self.visible_health_status == old(self.visible_health_status) and self.health_status == old(self.health_status))"),
                  ("completion_shows_actual", "implies(old(self.scan_countdown) >= 0 and old(self.scan_countdown) - 1 == 0,"
                                              " self.visible_health_status == self.health_status and self._scanned_this_step == True)"),
                  # ... where the folder's health is that of its worst file (NONE for an empty folder)
                  ("folder_health_is_worst_file", "implies(old(self.scan_countdown) >= 0 and old(self.scan_countdown) - 1 == 0,"
                                                  " forall(j, 0, len(self.files), self.visible_health_status.value >= dict_val(self.files, j).health_status.value)"
                                                  " and (exists(j, 0, len(self.files), self.visible_health_status.value == dict_val(self.files, j).health_status.value)"
                                                  "      if len(self.files) > 0 else self.visible_health_status.value == 0))")],
         modifies=["self.scan_countdown", "self.health_status", "self.visible_health_status", "self._scanned_this_step",
                   "File.visible_health_status", "File.num_access"],
         allocates=True,
         loops={0: {"inv": [("kept", "self.scan_countdown == old(self.scan_countdown) - 1 and self.health_status == old(self.health_status)"
                                     " and self.visible_health_status == old(self.visible_health_status)"),
                            ("files_live", "forall(j, 0, len(self.files), dict_val(self.files, j).folder is not None and not dict_val(self.files, j).deleted)")],
                    "modifies": ["File.visible_health_status", "File.num_access"]}})
contract(f"{FO}::Folder.restore", props=["C14"],
         ensures=[("arms_countdown", "self.restore_countdown == (self.restore_duration if old(self.restore_countdown) <= 0 else old(self.restore_countdown))"),
                  ("marks_restoring", f"implies(old(self.restore_countdown) <= 0, self.health_status == {FH}.RESTORING)"),
                  ("undeleted", "self.deleted == False and result == True"),
                  ("visible_untouched", "self.visible_health_status == old(self.visible_health_status)")],
         modifies=["self.deleted", "self.restore_countdown", "self.health_status"])

# ---- field-writer frames: visible health is written only by scan completions (and the database restore, which
# carries the old visible value over to the replacement file) ------------------------------------------------------------------
writers("C14", "health_state_visible", [f"{SW}::Software.scan"], why="software: visible health is written by scan only")
writers("C14", "visible_health_status", [f"{FI}::File.scan", f"{FO}::Folder._scan_timestep", f"{FO}::Folder.scan", f"{DB}::DatabaseService.restore_backup"],
        why="files/folders: visible health is written by scans; restore_backup copies the previous visible value onto the new file object")
writers("C14", "_fixing_countdown", [f"{SW}::Software.fix", f"{SW}::Software._update_fix_status", f"{DB}::DatabaseService._update_fix_status"], why="fix timer")
writers("C14", "scan_countdown", [f"{FO}::Folder.scan", f"{FO}::Folder._scan_timestep"], why="folder scan timer")
writers("C14", "restore_countdown", [f"{FO}::Folder.restore", f"{FO}::Folder._restoring_timestep"], why="folder restore timer")
writers("C14", "node_scan_countdown", ["src/primaite/simulator/network/hardware/base.py::Node.scan", "src/primaite/simulator/network/hardware/base.py::Node.apply_timestep"], why="node scan timer")

# a scan of the file system (the node scan's completion, or the scan request) reaches EVERY folder, in order, with the same mode
FSY = "src/primaite/simulator/file_system/file_system.py"
contract(f"{FSY}::FileSystem.scan", props=["C14"],
         requires=["forall(j, 0, len(self.folders), forall(k, 0, len(dict_val(self.folders, j).files), dict_val(dict_val(self.folders, j).files, k).folder is not None))"],
         ensures=[("every_folder_scanned_once", "n_events() == old(n_events()) + len(self.folders) and forall(j, 0, len(self.folders),"
                                                " event_kind(old(n_events()) + j) == ev('folder_scan') and event_arg(old(n_events()) + j, 0) is dict_val(self.folders, j)"
                                                " and event_arg(old(n_events()) + j, 1) == instant_scan)"),
                  ("structure_kept", "same_dict(self.folders)")],
         modifies=["Folder.scan_countdown", "Folder.visible_health_status", "Folder._scanned_this_step", "File.visible_health_status", "File.num_access"],
         loops={0: {"inv": [("scanned_so_far", "n_events() == old(n_events()) + _i and forall(j, 0, _i, event_kind(old(n_events()) + j) == ev('folder_scan')"
                                               " and event_arg(old(n_events()) + j, 0) is dict_val(self.folders, j) and event_arg(old(n_events()) + j, 1) == instant_scan)"),
                            ("structure_kept", "same_dict(self.folders)")]}})
