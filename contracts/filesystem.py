"""C15 (structural consistency of the file system) and the file half of C14 (visible health changes only by scanning)."""
from pyvc.contracts import contract, spec, inline, attr_types, writers, dispatch_contract

FS = "src/primaite/simulator/file_system/file_system.py"
FO = "src/primaite/simulator/file_system/folder.py"
FI = "src/primaite/simulator/file_system/file.py"
AB = "src/primaite/simulator/file_system/file_system_item_abc.py"
H = "FileSystemItemHealthStatus"

attr_types({"File.folder": "Folder", "Folder._scanned_this_step": "bool", "Folder._file_request_manager": "RequestManager",
            "Folder._file_exists": "Any", "Folder._file_not_deleted": "Any",
            "FileSystem._folder_request_manager": "RequestManager", "FileSystem._file_request_manager": "RequestManager",
            "SimComponent._request_manager": "RequestManager", "SimComponent._parent": "Any"})

# ---- files (C14: "the health an agent can see for a file changes only when a scan covering it completes, and then equals
# its true health at that moment; true health changes only through explicit events") ---------------------------------
F_MOD = ["self.health_status", "self.visible_health_status", "self.num_access", "self.deleted", "self.revealed_to_red"]
contract(f"{FI}::File.scan", props=["C14"], requires=["self.folder is not None"],
         ensures=[("visible_is_actual", "implies(not old(self.deleted), self.visible_health_status == self.health_status and result == True)"),
                  ("deleted_refused", "implies(old(self.deleted), self.visible_health_status == old(self.visible_health_status) and result == False)"),
                  ("actual_untouched", "self.health_status == old(self.health_status) and self.deleted == old(self.deleted)")],
         modifies=["self.visible_health_status", "self.num_access"])
for m, frm, to in (("repair", "CORRUPT", "GOOD"), ("corrupt", "GOOD", "CORRUPT")):
    contract(f"{FI}::File.{m}", props=["C14"], requires=["self.folder is not None"],
             ensures=[("health", f"self.health_status == ({H}.{to} if (not old(self.deleted)) and old(self.health_status) == {H}.{frm} else old(self.health_status))"),
                      ("visible_untouched", "self.visible_health_status == old(self.visible_health_status)"),
                      ("accepted_iff_live", "result == (not old(self.deleted)) and self.deleted == old(self.deleted)")],
             modifies=["self.health_status", "self.num_access"])
contract(f"{FI}::File.restore", props=["C14", "C15"], requires=["self.folder is not None"],
         ensures=[("undeleted", "self.deleted == False and result == True"),
                  ("health", f"self.health_status == ({H}.GOOD if (not old(self.deleted)) and old(self.health_status) == {H}.CORRUPT else old(self.health_status))"),
                  ("visible_untouched", "self.visible_health_status == old(self.visible_health_status)")],
         modifies=["self.deleted", "self.health_status", "self.num_access"])
contract(f"{FI}::File.delete", props=["C14", "C15"],
         ensures=[("deleted", "self.deleted == True and result == (not old(self.deleted))"),
                  ("health_untouched", "self.health_status == old(self.health_status) and self.visible_health_status == old(self.visible_health_status)")],
         modifies=["self.deleted", "self.num_access"])
contract(f"{FI}::File.pre_timestep", props=["C15"], ensures=[("access_reset", "self.num_access == 0")], modifies=["self.num_access"])

# ---- folders: the live / deleted partition ------------------------------------------------------------------------
spec("fkey_ok(d, j)", "dict_key(d, j) == dict_val(d, j).uuid")
# J1/J2/J3 of DESIGN.md: disjoint maps keyed by uuid, flags agree with the map an item is in, live names unique
spec("wf_folder(fo)", """
    forall(j, 0, len(fo.files), fkey_ok(fo.files, j) and not dict_val(fo.files, j).deleted and dict_key(fo.files, j) not in fo.deleted_files)
    and forall(j, 0, len(fo.deleted_files), fkey_ok(fo.deleted_files, j) and dict_val(fo.deleted_files, j).deleted)
    and forall(a, 0, len(fo.files), forall(b, 0, len(fo.files), implies(a != b, dict_val(fo.files, a).name != dict_val(fo.files, b).name)))
""")
spec("has_live_name(fo, nm)", "exists(j, 0, len(fo.files), dict_val(fo.files, j).name == nm)")
spec("has_deleted_name(fo, nm)", "exists(j, 0, len(fo.deleted_files), dict_val(fo.deleted_files, j).name == nm)")
spec("uuids_identify_files()", "forall_obj(f, File, forall_obj(g, File, implies(f is not g, f.uuid != g.uuid)))")

contract(f"{FO}::Folder.get_file", props=["C15"],
         ensures=[("found_live", "implies(has_live_name(self, file_name), result is not None and result.name == file_name"
                                 " and exists(j, 0, len(self.files), dict_val(self.files, j) is result))"),
                  ("found_deleted", "implies(not has_live_name(self, file_name) and include_deleted and has_deleted_name(self, file_name),"
                                    " result is not None and result.name == file_name and exists(j, 0, len(self.deleted_files), dict_val(self.deleted_files, j) is result))"),
                  ("absent", "implies(not has_live_name(self, file_name) and not (include_deleted and has_deleted_name(self, file_name)), result is None)")],
         modifies=[],
         loops={0: {"inv": [("none_so_far", "forall(j, 0, _i, dict_val(self.files, j).name != file_name)")]},
                1: {"inv": [("no_live", "not has_live_name(self, file_name)"),
                            ("none_so_far", "forall(j, 0, _i, dict_val(self.deleted_files, j).name != file_name)")]}})

FO_MOD = ["self.files{*}", "self.deleted_files{*}", "File.deleted", "File.num_access"]
contract(f"{FO}::Folder.remove_file", props=["C15"],
         requires=["wf_folder(self)", "uuids_identify_files()", "file is not None"],
         ensures=[("still_consistent", "wf_folder(self)"),
                  ("moved_to_deleted", "implies(old(file.uuid in self.files), file.uuid not in self.files and file.uuid in self.deleted_files and file.deleted)"),
                  ("exactly_one_fewer", "implies(old(file.uuid in self.files), len(self.files) == old(len(self.files)) - 1)"),
                  # the whole view: every other entry of both maps is exactly as before
                  ("others_untouched", "same_dict_except(self.files, file.uuid) and same_dict_except(self.deleted_files, file.uuid)"),
                  ("unknown_file_changes_nothing", "implies(not old(file.uuid in self.files), len(self.files) == old(len(self.files)) and len(self.deleted_files) == old(len(self.deleted_files)))")],
         raises={"Exception": "file is None or not isinstance(file, File)"},
         modifies=FO_MOD, allocates=True)

contract(f"{FO}::Folder.restore_file", props=["C15"],
         requires=["wf_folder(self)", "uuids_identify_files()",
                   "forall(j, 0, len(self.files), dict_val(self.files, j).folder is not None)"],
         ensures=[("still_consistent", "wf_folder(self)"),
                  ("restored_is_live", "implies(old(has_live_name(self, file_name) or has_deleted_name(self, file_name)), result == True and has_live_name(self, file_name))"),
                  ("absent_refused", "implies(not old(has_live_name(self, file_name) or has_deleted_name(self, file_name)),"
                                     " result == False and len(self.files) == old(len(self.files)) and len(self.deleted_files) == old(len(self.deleted_files)))"),
                  ("moves_exactly_one", "len(self.files) + len(self.deleted_files) == old(len(self.files) + len(self.deleted_files))")],
         modifies=["self.files{*}", "self.deleted_files{*}", "File.deleted", "File.num_access", "File.health_status"], allocates=True,
         bounded=3)

contract(f"{FO}::Folder.remove_file_by_name", props=["C15"], bounded=3,
         requires=["wf_folder(self)", "uuids_identify_files()"],
         ensures=[("still_consistent", "wf_folder(self)"),
                  ("removed_iff_live", "result == old(has_live_name(self, file_name))"),
                  ("no_longer_live", "not has_live_name(self, file_name)"),
                  ("one_fewer", "len(self.files) == old(len(self.files)) - (1 if result else 0)")],
         modifies=FO_MOD, allocates=True,
         loops={0: {"inv": [("none_so_far", "forall(j, 0, _i, dict_val(self.files, j).name != file_name)"),
                            ("unchanged_so_far", "len(self.files) == old(len(self.files)) and wf_folder(self)")]}})

# ---- validators (C11/C05: "file or folder exists and is not deleted") ------------------------------------------------
spec("fs_has_live_folder(fs, nm)", "exists(j, 0, len(fs.folders), dict_val(fs.folders, j).name == nm)")
spec("fs_has_deleted_folder(fs, nm)", "exists(j, 0, len(fs.deleted_folders), dict_val(fs.deleted_folders, j).name == nm)")
contract(f"{FS}::FileSystem.get_folder", props=["C15", "C11"],
         ensures=[("found_live", "implies(fs_has_live_folder(self, folder_name), result is not None and result.name == folder_name"
                                 " and exists(j, 0, len(self.folders), dict_val(self.folders, j) is result))"),
                  ("found_deleted", "implies(not fs_has_live_folder(self, folder_name) and include_deleted and fs_has_deleted_folder(self, folder_name),"
                                    " result is not None and result.name == folder_name and exists(j, 0, len(self.deleted_folders), dict_val(self.deleted_folders, j) is result))"),
                  ("absent", "implies(not fs_has_live_folder(self, folder_name) and not (include_deleted and fs_has_deleted_folder(self, folder_name)), result is None)")],
         modifies=[],
         loops={0: {"inv": [("none_so_far", "forall(j, 0, _i, dict_val(self.folders, j).name != folder_name)")]},
                1: {"inv": [("no_live", "not fs_has_live_folder(self, folder_name)"),
                            ("none_so_far", "forall(j, 0, _i, dict_val(self.deleted_folders, j).name != folder_name)")]}})

contract(f"{FS}::FileSystem._FolderExistsValidator.__call__", props=["C11", "C05", "C15"], requires=["len(request) >= 1"],
         ensures=[("rule", "result == fs_has_live_folder(self.file_system, request[0])")], modifies=[])
contract(f"{FS}::FileSystem._FolderNotDeletedValidator.__call__", props=["C11", "C05", "C15"], requires=["len(request) >= 1"],
         ensures=[("never_raises_and_live_passes", "implies(fs_has_live_folder(self.file_system, request[0]) and"
                                                   " forall(j, 0, len(self.file_system.folders), not dict_val(self.file_system.folders, j).deleted), result == True)"),
                  ("absent_refused", "implies(not fs_has_live_folder(self.file_system, request[0]) and not fs_has_deleted_folder(self.file_system, request[0]), result == False)")],
         modifies=[])
contract(f"{FO}::Folder._FileExistsValidator.__call__", props=["C11", "C05", "C15"], requires=["len(request) >= 1"],
         ensures=[("rule", "result == has_live_name(self.folder, request[0])")], modifies=[])

# ---- file system level -------------------------------------------------------------------------------------------------
spec("wf_fs_keys(fs)", "forall(j, 0, len(fs.folders), fkey_ok(fs.folders, j))")
contract(f"{FS}::FileSystem.create_folder", props=["C15", "C05", "C11"],
         requires=["wf_fs_keys(self)"],
         ensures=[("named", "result is not None and result.name == folder_name"),
                  ("is_live", "result.uuid in self.folders and self.folders[result.uuid] is result"),
                  ("existing_reused", "implies(old(fs_has_live_folder(self, folder_name)), not fresh(result))"),
                  ("existing_no_growth", "implies(old(fs_has_live_folder(self, folder_name)), len(self.folders) == old(len(self.folders)))"),
                  # the new folder's requests are routed to the folder's own request manager (so that the permission
                  # rules below it stay visible to check_valid)
                  ("route_registered", "implies(not old(fs_has_live_folder(self, folder_name)), fresh(result)"
                                       " and folder_name in self._folder_request_manager.request_types"
                                       " and self._folder_request_manager.request_types[folder_name].func is result._request_manager)")],
         modifies=["self.folders{*}", "self._folder_request_manager.request_types{*}", "Folder.scan_duration", "Folder.restore_duration"],
         allocates=True)

contract(f"{FS}::FileSystem.pre_timestep", props=["C15"],
         ensures=[("counters_start_at_zero", "self.num_file_creations == 0 and self.num_file_deletions == 0")],
         modifies=["self.num_file_creations", "self.num_file_deletions", "Folder._scanned_this_step", "File.num_access"],
         loops={0: {"inv": [("zero", "self.num_file_creations == 0 and self.num_file_deletions == 0")],
                    "modifies": ["Folder._scanned_this_step", "File.num_access"]}})
contract(f"{FO}::Folder.pre_timestep", props=["C15"], ensures=[], modifies=["self._scanned_this_step", "File.num_access"],
         loops={0: {"inv": [], "modifies": ["File.num_access"]}})

contract(f"{FS}::FileSystem.delete_file", props=["C15"],
         requires=["forall(j, 0, len(self.folders), wf_folder(dict_val(self.folders, j)))", "uuids_identify_files()"],
         ensures=[("no_folder_refused", "implies(not old(fs_has_live_folder(self, folder_name)), result == False)"),
                  ("counted", "self.num_file_deletions == old(self.num_file_deletions) + (1 if result else 0)")],
         modifies=["self.num_file_deletions", "Folder.files", "Folder.deleted_files", "File.deleted", "File.num_access", "heap"],
         allocates=True, bounded=2)

# ---- restoring a folder never produces a second live folder of the same name ---------------------------------------------------------------
spec("live_folder_names_distinct(fs)", "forall(a, 0, len(fs.folders), forall(b, 0, len(fs.folders), implies(a != b, dict_val(fs.folders, a).name != dict_val(fs.folders, b).name)))")
contract(f"{FS}::FileSystem.restore_folder", props=["C15"], bounded=2,
         requires=["wf_fs_keys(self)", "forall(j, 0, len(self.deleted_folders), fkey_ok(self.deleted_folders, j))", "live_folder_names_distinct(self)",
                   # a folder is filed in exactly one of the two maps
                   "forall(a, 0, len(self.folders), forall(b, 0, len(self.deleted_folders), dict_val(self.folders, a) is not dict_val(self.deleted_folders, b)"
                   " and dict_key(self.folders, a) != dict_key(self.deleted_folders, b)))"],
         ensures=[("live_names_stay_distinct", "live_folder_names_distinct(self)"),
                  ("a_live_folder_of_that_name_is_the_one_restored", "implies(old(fs_has_live_folder(self, folder_name)), same_dict(self.folders) and same_dict(self.deleted_folders))"),
                  ("absent_refused", "implies(not old(fs_has_live_folder(self, folder_name)) and not old(fs_has_deleted_folder(self, folder_name)), result == False and unchanged())")],
         modifies=["heap"], allocates=True)

# ---- reported state: "the reported state lists exactly the live and the deleted items" -----------------------------------------------------
spec("as_dict(x)", "cast(x, 'Dict[str, Any]')")
contract(f"{FO}::Folder.describe_state", props=["C15"],
         ensures=[("lists_every_live_file", "forall(j, 0, len(self.files), dict_val(self.files, j).name in as_dict(result['files']))"),
                  ("lists_every_deleted_file", "forall(j, 0, len(self.deleted_files), dict_val(self.deleted_files, j).name in as_dict(result['deleted_files']))"),
                  ],
         modifies=[], allocates=True)
# the converse (nothing else is listed) nests an existential under the enumeration of the reported keys; neither solver decides it within
# the budget in proof mode, so it is a bounded stand-in (at most 2 files in each map)
contract(f"{FO}::Folder.describe_state#nothing_else", props=["C15"], bounded=2,
         ensures=[("lists_every_live_file", "forall(j, 0, len(self.files), dict_val(self.files, j).name in as_dict(result['files']))"),
                  ("lists_every_deleted_file", "forall(j, 0, len(self.deleted_files), dict_val(self.deleted_files, j).name in as_dict(result['deleted_files']))"),
                  ("lists_only_live_files", "forall(k, 0, len(as_dict(result['files'])), has_live_name(self, dict_key(as_dict(result['files']), k)))"),
                  ("lists_only_deleted_files", "forall(k, 0, len(as_dict(result['deleted_files'])), has_deleted_name(self, dict_key(as_dict(result['deleted_files']), k)))")],
         modifies=[], allocates=True)
