"""Bounded stand-in for a part of C01 -- NOT a proof: "for every action of the agent's action space ... a step completes without raising
... including actions aimed at missing or powered-off components".  The sweep of bounded/action_routes.py (every registered action type x
nodes of the shipped scenarios x parameters naming existing components, real form_request, real Simulation.apply_request on a forked
copy of the built game), with the other oracle: answering the request raises nothing."""
import os
import sys

sys.path.insert(0, os.path.dirname(os.path.abspath(__file__)))
import action_routes  # noqa: E402

if __name__ == "__main__":
    sys.exit(action_routes.main(mode="total"))
