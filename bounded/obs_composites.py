"""C02 bounded stand-in: see obs_common.py (membership of every observation in the declared space)."""
import os, sys
sys.path.insert(0, os.path.dirname(os.path.abspath(__file__)))
from obs_common import main
if __name__ == "__main__":
    sys.exit(main("member"))
