"""C09 bounded stand-in: see obs_common.py (selected observation leaves against the simulator objects themselves)."""
import os, sys
sys.path.insert(0, os.path.dirname(os.path.abspath(__file__)))
from obs_common import main
if __name__ == "__main__":
    sys.exit(main("truth"))
