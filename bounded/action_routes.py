"""Bounded stand-in for the routing half of C05 -- NOT a proof.

"A request produced from any agent action whose parameters name existing components is never 'unreachable': it is routed to
that component's operation."

For every action type registered in AbstractAction._registry and every node of two shipped scenarios (data_manipulation: hosts,
servers, router, switches; uc7_config: additionally firewalls) the action's ConfigSchema is filled with parameters that name
components which exist on that node (its own applications / services / folders / files / interfaces / users; applications the
action addresses by a fixed name are installed first when the node can host them), the REAL form_request builds the request and
the REAL Simulation.apply_request answers it on a freshly built game.  Whenever every component named on the request path
exists, the answer must not be 'unreachable'.

Bound: the two scenarios; per action type and node at most 3 components of each kind; one request per forked copy of the freshly built game (its effects are discarded).
"""
import copy
import itertools
import json
import os
import sys
import warnings

warnings.filterwarnings("ignore")
import yaml  # noqa: E402

import primaite  # noqa: E402
import primaite.game.agent.actions  # noqa: E402,F401
from primaite.game.agent.actions.manager import AbstractAction  # noqa: E402
from primaite.game.game import PrimaiteGame  # noqa: E402
from primaite.simulator.system.applications.application import Application  # noqa: E402

PKG = os.path.join(os.path.dirname(primaite.__file__), "config", "_package_data")
SCENARIOS = ["data_manipulation.yaml", "uc7_config.yaml"]
THOROUGH = os.environ.get("VERIF_TIER") == "thorough"
if THOROUGH:  # the other shipped networks too, and more nodes / parameter choices per signature
    SCENARIOS += ["multi_lan_internet_network_example.yaml", "basic_lan_network_example.yaml", "client_server_p2p_network_example.yaml"]
CAP = 5 if THOROUGH else 3
# nodes tried per scenario and node class (the routes depend on the class and the installed software, not on the name)
PER_CLASS = 4 if THOROUGH else 2


def load(name):
    cfg = yaml.safe_load(open(os.path.join(PKG, name)))
    cfg["agents"] = []
    return cfg


SEEN = {}


def pick_nodes(game):
    """One node per (node class, installed software) signature, across scenarios: the request routes depend on those, not on names."""
    out = []
    for n in game.simulation.network.nodes.values():
        sig = (type(n).__name__, tuple(sorted(n.software_manager.software)))
        if SEEN.setdefault(sig, 0) < PER_CLASS:
            SEEN[sig] += 1
            out.append(n.config.hostname)
    return out


def ip_of(node):
    for nic in getattr(node, "network_interface", {}).values():
        if getattr(nic, "ip_address", None) is not None:
            return str(nic.ip_address)
    return "192.168.1.10"


def candidates(field, ann, node, game):
    """Values for one ConfigSchema field that name things existing on `node` (None: no idea -> the schema default is used)."""
    sm = node.software_manager
    other = next((n for n in game.simulation.network.nodes.values() if n is not node and getattr(n, "network_interface", None)), node)
    fs = getattr(node, "file_system", None)
    if field in ("node_name", "target_nodename", "target_router", "target_firewall_nodename", "source_node"):
        return [node.config.hostname]
    if field == "application_name":
        return [k for k, v in sm.software.items() if isinstance(v, Application)][:CAP]
    if field == "service_name":
        return [k for k, v in sm.software.items() if not isinstance(v, Application)][:CAP]
    if field in ("folder_name", "target_folder_name", "exfiltration_folder_name"):
        return [f.name for f in list(fs.folders.values())[:CAP]] if fs else []
    if field in ("file_name", "target_file_name"):
        return None  # chosen together with the folder (see expand)
    if field in ("nic_num", "port_num"):
        return list(getattr(node, "network_interface", {}).keys())[:CAP]
    if field in ("username",):
        return ["admin"]
    if field in ("password", "current_password", "server_password"):
        return ["admin"]
    if field == "new_password":
        return ["admin2"]
    if field == "is_admin":
        return [False]
    if field in ("remote_ip", "ip_address", "target_ip_address", "server_ip_address", "c2_server_ip_address"):
        return [ip_of(other)]
    if field in ("src_ip", "dst_ip"):
        return ["ALL"]
    if field in ("src_wildcard", "dst_wildcard", "src_port", "dst_port", "protocol_name"):
        return ["ALL"] if field in ("src_port", "dst_port", "protocol_name") else ["NONE"]
    if field == "permission":
        return ["DENY"]
    if field == "position":
        return [1]
    if field == "firewall_port_name":
        return ["internal", "dmz", "external"]
    if field == "firewall_port_direction":
        return ["inbound", "outbound"]
    if field in ("command", "commands"):
        return [["file_system", "create", "folder", "verif_folder"]]
    if field == "payload":
        return ["ENCRYPT"]
    if field in ("target_protocol", "target_port"):
        return [None]
    return None


def expand(cls, node, game):
    fields = {k: f for k, f in cls.ConfigSchema.model_fields.items() if k != "type"}
    axes, names = [], []
    for k, f in fields.items():
        c = candidates(k, f.annotation, node, game)
        if c is None:
            if f.is_required() and k not in ("file_name", "target_file_name"):
                return  # a required field this sweep has no value for: the action type is reported as not covered
            continue
        if not c:
            return
        names.append(k)
        axes.append(c)
    for combo in itertools.islice(itertools.product(*axes), 40 if THOROUGH else 12):
        d = dict(zip(names, combo))
        fs = getattr(node, "file_system", None)
        for fk, dk in (("file_name", "folder_name"), ("target_file_name", "target_folder_name")):
            if fk in fields:
                folder = fs.get_folder(d.get(dk)) if fs and d.get(dk) else None
                files = [f.name for f in folder.files.values()][:1] if folder else []
                d[fk] = files[0] if files else "verif_file.txt"
        yield d


def addressed_components_exist(request, game):
    """Every component the request path names exists (so the property's 'never unreachable' applies)."""
    if len(request) < 3 or request[0] != "network" or request[1] != "node":
        return request and request[0] == "do-nothing"
    node = game.simulation.network.get_node_by_hostname(request[2])
    if node is None:
        return False
    if len(request) > 4 and request[3] in ("application", "service"):
        if request[4] == "install":
            return True
        sw = node.software_manager.software.get(request[4])
        if sw is None:
            return False
        return True
    if len(request) > 4 and request[3] == "network_interface":
        return request[4] in node.network_interface
    if request[3] == "acl":  # a router's access-control list
        return hasattr(node, "acl")
    if request[3] in ("internal", "dmz", "external"):  # a firewall's per-port lists
        return type(node).__name__ == "Firewall"
    return True


def has_operation(request, game):
    """node-application-execute names an operation only some applications have (no base-class `execute` route): the sweep holds the
    action to it only where the addressed application registers one."""
    if len(request) > 5 and request[3] == "application" and request[5] in ("execute", "run"):
        node = game.simulation.network.get_node_by_hostname(request[2])
        sw = node.software_manager.software.get(request[4])
        return sw is not None and "execute" in sw._request_manager.request_types
    return True


def in_child(fn):
    """Run fn() in a forked copy of this process (so the request's effects on the game are thrown away) and return its JSON-able result."""
    r, w = os.pipe()
    pid = os.fork()
    if pid == 0:
        os.close(r)
        try:
            out = fn()
        except BaseException as e:  # noqa: BLE001
            out = {"skip": True, "error": repr(e)}
        try:
            os.write(w, json.dumps(out).encode())
        finally:
            os._exit(0)
    os.close(w)
    data = b""
    while True:
        chunk = os.read(r, 65536)
        if not chunk:
            break
        data += chunk
    os.close(r)
    os.waitpid(pid, 0)
    return json.loads(data) if data else {"skip": True, "error": "no result from the child"}


def one_request(game, hostname, disc, cls, conf, mode="routes"):
    node = game.simulation.network.get_node_by_hostname(hostname)
    try:
        action_cfg = cls.ConfigSchema(type=disc, **conf)
        request = cls.form_request(action_cfg)
    except Exception:  # noqa: BLE001
        return {"skip": True}  # the schema refuses these parameters: no request is produced
    if len(request) > 4 and request[3] == "application" and request[4] not in node.software_manager.software \
            and request[4] in Application._registry and hasattr(node, "file_system") and type(node).__name__ in ("Computer", "Server"):
        try:
            node.software_manager.install(Application._registry[request[4]])
        except Exception:  # noqa: BLE001
            pass
    if mode == "routes" and (not addressed_components_exist(request, game) or not has_operation(request, game)):
        return {"skip": True}
    try:
        resp = game.simulation.apply_request(request, {})
        return {"skip": False, "bad": resp.status == "unreachable", "request": [str(x) for x in request],
                "detail": f"answered {resp.status!r}: {resp.data}"}
    except Exception as e:  # noqa: BLE001
        # totality is C01's subject (bounded/action_total.py reports it); here only the routing verdict counts
        return {"skip": False, "bad": False, "raised": f"{type(e).__name__}: {str(e)[:300]}", "request": [str(x) for x in request]}


MISSING = {"application_name": "no-such-application", "service_name": "no-such-service", "folder_name": "no-such-folder",
           "file_name": "no-such-file.txt", "target_file_name": "no-such-file.txt", "target_folder_name": "no-such-folder",
           "username": "no-such-user", "nic_num": 99, "port_num": 99}


def with_missing(conf):
    """Variants of a parameter choice in which ONE name-like parameter names something that does not exist (C01: 'actions aimed at
    missing ... components')."""
    for k, v in MISSING.items():
        if k in conf:
            yield dict(conf, **{k: v})


def main(mode="routes"):
    """mode 'routes': the answer is not 'unreachable' (C05).  mode 'total': answering the request raises nothing (C01)."""
    cases, uncovered = {}, set(AbstractAction._registry)
    for scen in SCENARIOS:
        cfg = load(scen)
        game = PrimaiteGame.from_config(copy.deepcopy(cfg))
        for hostname in pick_nodes(game):
            for disc, cls in sorted(AbstractAction._registry.items()):
                pnode = game.simulation.network.get_node_by_hostname(hostname)
                try:
                    configs = list(expand(cls, pnode, game))
                except Exception:  # noqa: BLE001
                    configs = []
                if mode == "total":
                    configs = configs + [m for c in configs[:2] for m in with_missing(c)]
                for conf in configs:
                    res = in_child(lambda: one_request(game, hostname, disc, cls, conf, mode))
                    if res.get("skip"):
                        continue
                    cs = cases.setdefault(disc, {"name": disc, "checked": 0, "counterexample": None})
                    cs["checked"] += 1
                    uncovered.discard(disc)
                    bad = res.get("bad") if mode == "routes" else bool(res.get("raised"))
                    if bad and cs["counterexample"] is None:
                        cs["counterexample"] = {"scenario": scen, "node": hostname, "action": disc, "parameters": conf,
                                                "request": res.get("request"), "detail": res.get("detail") if mode == "routes" else res.get("raised")}
    print(json.dumps({"checked": sum(c["checked"] for c in cases.values()), "cases": list(cases.values()),
                      "not_covered": sorted(uncovered)}))
    return 1 if any(c["counterexample"] for c in cases.values()) else 0


if __name__ == "__main__":
    sys.exit(main())
