"""Bounded stand-in for the composite observations (C02 membership, C09 ground truth) -- NOT a proof.

A real game is built from the shipped data_manipulation scenario (observation options widened so that every kind of
leaf is present), then the simulator objects themselves are driven through their value spaces, one component at a
time (everything else stays at the scenario's initial state), and after every change

    state = game.get_sim_state();  obs = observation_manager.update(state)

is computed with the real code.  C02: no exception, and the real gymnasium `space.contains(obs)`.  C09: selected leaves
are compared with the simulator objects directly (not with describe_state).

Bound: the scenario's 7 hosts / 1 router / 10 links; per component every member of every enumeration, counters 0..12,
ACL rules built from {absent, listed, unlisted} values per field at every position; components varied one at a time.
"""
import copy
import itertools
import json
import sys
import warnings

warnings.filterwarnings("ignore")
import yaml  # noqa: E402

from primaite.game.game import PrimaiteGame  # noqa: E402

import primaite  # noqa: E402
import os  # noqa: E402

CFG = os.path.join(os.path.dirname(primaite.__file__), "config", "_package_data", "data_manipulation.yaml")


class Run:
    def __init__(self):
        cfg = yaml.safe_load(open(CFG))
        ag = [a for a in cfg["agents"] if a["ref"] == "defender"][0]
        self.opts = ag["observation_space"]["options"]["components"][0]["options"]
        self.opts.update({"include_num_access": True, "num_applications": 1, "include_users": True})
        for h in self.opts["hosts"]:
            if h["hostname"] == "client_1":
                h["applications"] = [{"application_name": "web-browser"}]
        ag["reward_function"] = {"reward_components": [{"type": "dummy"}]}
        cfg["agents"] = [ag]
        self.game = PrimaiteGame.from_config(copy.deepcopy(cfg))
        self.om = self.game.agents["defender"].observation_manager
        self.net = self.game.simulation.network
        self.hosts = [h["hostname"] for h in self.opts["hosts"]]
        self.cases = {}
        self.space = self.om.space
        self.observe("baseline", "initial state")

    # -- bookkeeping
    def case(self, name):
        return self.cases.setdefault(name, {"name": name, "checked": 0, "counterexample": None})

    # failures recorded as known findings are confined to their own case: anything else that goes wrong in the same
    # states is reported under "<case>.other" and is therefore never covered by the finding
    CONFINED = {"host.file_counters": ("num_file_creations: value", "num_file_deletions: value"),
                "acl.unlisted_address": ("KeyError: '10.9.9.9'",)}

    def fail(self, name, what, detail):
        if name in self.CONFINED and not any(m in detail for m in self.CONFINED[name]):
            name = name + ".other"
        c = self.case(name)
        c["checked"] = max(c["checked"], 1)
        if c["counterexample"] is None:
            c["counterexample"] = {"what": what, "detail": detail}

    def observe(self, name, what, truth=None):
        """One evaluation of the real pipeline; `truth(obs)` returns None or a description of a wrong leaf."""
        c = self.case(name)
        c["checked"] += 1
        try:
            state = self.game.get_sim_state()
            obs = self.om.update(state)
        except Exception as e:  # observe() raised
            self.fail(name, what, f"observation raised {type(e).__name__}: {e}")
            return None
        if MODE == "member":
            if not self.space.contains(obs):
                self.fail(name, what, "observation not in the declared space: " + self.offender(self.space, obs))
        elif truth is not None:
            bad = truth(obs)
            if bad:
                self.fail(name, what, bad)
        return obs

    def offender(self, space, obs, path=""):
        from gymnasium import spaces
        if isinstance(space, spaces.Dict):
            if not isinstance(obs, dict):
                return f"{path}: not a dict"
            if set(obs.keys()) != set(space.spaces.keys()):
                return f"{path}: keys {sorted(map(str, obs.keys()))} != declared {sorted(map(str, space.spaces.keys()))}"
            for k in space.spaces:
                if not space.spaces[k].contains(obs[k]):
                    return self.offender(space.spaces[k], obs[k], f"{path}/{k}")
            return f"{path}: ?"
        return f"{path}: value {obs!r} not in {space}"

    def host_obs(self, obs, hostname):
        return obs["NODES"][f"HOST{self.hosts.index(hostname)}"]


class setting:
    """Temporarily assign attributes of simulator objects."""

    def __init__(self, *triples):
        self.triples = triples

    def __enter__(self):
        self.old = [(o, a, getattr(o, a)) for o, a, _v in self.triples]
        for o, a, v in self.triples:
            setattr(o, a, v)

    def __exit__(self, *exc):
        for o, a, v in self.old:
            setattr(o, a, v)


def sweep(run: Run):
    from primaite.simulator.file_system.file_system_item_abc import FileSystemItemHealthStatus as FH
    from primaite.simulator.network.hardware.node_operating_state import NodeOperatingState as NS
    from primaite.simulator.system.applications.application import ApplicationOperatingState as AS
    from primaite.simulator.system.services.service import ServiceOperatingState as SS
    from primaite.simulator.system.software import SoftwareHealthState as HS
    net = run.net
    nodes = {n.config.hostname: n for n in net.nodes.values()}
    scan_sw = run.opts.get("services_requires_scan", True)
    scan_app = run.opts.get("applications_requires_scan", True)
    scan_fs = run.opts.get("file_system_requires_scan", True)

    # 1. power state of every node (C09: components of a node that is not ON read as the default encoding)
    for name, node in nodes.items():
        for v in NS:
            def truth(obs, name=name, v=v):
                if name not in run.hosts:
                    return None
                h = run.host_obs(obs, name)
                if h["operating_status"] != v.value:
                    return f"{name}: operating_status leaf {h['operating_status']} != {v.value}"
                if v != NS.ON:
                    rest = {k: x for k, x in h.items() if k != "operating_status"}
                    dflt = {k: x for k, x in run.om.obs.components["NODES"].hosts[run.hosts.index(name)].default_observation.items() if k != "operating_status"}
                    if rest != dflt:
                        return f"{name} is {v.name} but its components do not read as the default encoding"
                return None
            with setting((node, "operating_state", v)):
                run.observe("power", f"{name}.operating_state = {v.name}", truth)

    # 2. services: observed ones through the full product, the others through their operating states
    for name, node in nodes.items():
        observed = []
        if name in run.hosts:
            observed = [s["service_name"] for s in run.opts["hosts"][run.hosts.index(name)].get("services", [])]
        for sname, sw in list(node.software_manager.software.items()):
            if not hasattr(sw, "operating_state"):
                continue
            is_app = isinstance(sw.operating_state, AS)
            ops = list(AS) if is_app else list(SS)
            full = sname in observed or (is_app and name == "client_1" and sname == "web-browser")
            combos = itertools.product(ops, HS, HS) if full else ((o, sw.health_state_visible, sw.health_state_actual) for o in ops)
            for o, vis, act in combos:
                def truth(obs, name=name, sname=sname, o=o, vis=vis, act=act, is_app=is_app, full=full):
                    if not full or name not in run.hosts:
                        return None
                    leaf = run.host_obs(obs, name)["APPLICATIONS" if is_app else "SERVICES"][1]
                    want_h = (vis if (scan_app if is_app else scan_sw) else act).value
                    if node_on(nodes[name]) and (leaf["operating_status"] != o.value or leaf["health_status"] != want_h):
                        return f"{name}/{sname}: leaf {leaf} but operating_state={o.value}, visible={vis.value}, actual={act.value}, requires_scan={scan_app if is_app else scan_sw}"
                    return None
                with setting((sw, "operating_state", o), (sw, "health_state_visible", vis), (sw, "health_state_actual", act)):
                    run.observe("software", f"{name}/{sname}: op={o.name} visible={vis.name} actual={act.name}", truth)
            if is_app:
                for n in range(0, 13):
                    with setting((sw, "num_executions", n)):
                        run.observe("software", f"{name}/{sname}: num_executions={n}")

    # 3. folders and files
    for name, node in nodes.items():
        fs = node.file_system
        for folder in list(fs.folders.values()):
            for h, vis, scanned in itertools.product(FH, FH, (False, True)):
                def truth(obs, name=name, folder=folder, h=h, vis=vis, scanned=scanned):
                    if name != "database_server" or folder.name != "database":
                        return None
                    if scan_fs and not scanned:
                        # a visible status that changes without a scan is not a reachable state (C14); between scans the
                        # observation reports what it last showed, so nothing is compared here
                        return None
                    leaf = run.host_obs(obs, name)["FOLDERS"][1]
                    want = (vis if scan_fs else h).value
                    return None if leaf["health_status"] == want else f"{name}/{folder.name}: health leaf {leaf['health_status']} vs visible={vis.value} actual={h.value}"
                with setting((folder, "health_status", h), (folder, "visible_health_status", vis), (folder, "_scanned_this_step", scanned)):
                    run.observe("filesystem", f"{name}/{folder.name}: health={h.name} visible={vis.name} scanned={scanned}", truth)
            for f in list(folder.files.values()):
                for h, vis in itertools.product(FH, FH):
                    def truth(obs, name=name, folder=folder, f=f, h=h, vis=vis):
                        if name != "database_server" or folder.name != "database":
                            return None
                        leaf = run.host_obs(obs, name)["FOLDERS"][1]["FILES"][1]
                        want = (vis if scan_fs else h).value
                        return None if leaf["health_status"] == want else f"{name}/{folder.name}/{f.name}: health leaf {leaf['health_status']} != {want}"
                    with setting((f, "health_status", h), (f, "visible_health_status", vis)):
                        run.observe("filesystem", f"{name}/{folder.name}/{f.name}: health={h.name} visible={vis.name}", truth)
                for n in range(0, 13):
                    with setting((f, "num_access", n)):
                        run.observe("filesystem", f"{name}/{folder.name}/{f.name}: num_access={n}")
        # per-tick file counters of the host (raw counts go into Discrete(4))
        for n in range(0, 6):
            with setting((fs, "num_file_creations", n)):
                run.observe("host.file_counters", f"{name}: num_file_creations={n}")
            with setting((fs, "num_file_deletions", n)):
                run.observe("host.file_counters", f"{name}: num_file_deletions={n}")

    # 4. network interfaces: enabled flag, traffic above and below the nominal speed, malicious-event counters
    for name, node in nodes.items():
        for num, nic in list(node.network_interface.items()):
            for en in (True, False):
                def truth(obs, name=name, num=num, en=en):
                    if name not in run.hosts or num > 2 or not node_on(nodes[name]):
                        return None
                    leaf = run.host_obs(obs, name)["NICS"][num]
                    return None if leaf["nic_status"] == (1 if en else 2) else f"{name}/nic{num}: nic_status {leaf['nic_status']} but enabled={en}"
                with setting((nic, "enabled", en)):
                    run.observe("nic", f"{name}/nic{num}: enabled={en}", truth)
            if hasattr(nic, "traffic"):
                for amount in (0, 1, 50, 100, 101, 250, 1000):
                    traffic = {"icmp": {"inbound": amount, "outbound": amount}, "tcp": {53: {"inbound": amount, "outbound": 0}}}
                    with setting((nic, "traffic", traffic)):
                        run.observe("nic", f"{name}/nic{num}: traffic={amount}")
            if hasattr(nic, "nmne"):
                for cnt in (0, 1, 5, 6, 10, 11, 50):
                    nm = {"direction": {"inbound": {"keywords": {"*": cnt}}, "outbound": {"keywords": {"*": cnt}}}}
                    with setting((nic, "nmne", nm)):
                        run.observe("nic", f"{name}/nic{num}: nmne count={cnt}")
    # the class-level capture switch off while the observation was configured with include_nmne
    from primaite.game.agent.observations.nic_observations import NICObservation
    with setting((NICObservation, "capture_nmne", False)):
        run.observe("nic.nmne_capture_off", "NICObservation.capture_nmne = False with include_nmne = true")

    # 5. links
    for link in net.links.values():
        ref = getattr(link, "uuid", "link")
        for frac in (0.0, 0.05, 0.5, 1.0, 1.5, 10.0):
            with setting((link, "current_load", link.bandwidth * frac)):
                run.observe("links", f"{ref}: load = {frac} x bandwidth")

    # 6. router ACL: rules made of absent / listed / unlisted values at every position
    from primaite.simulator.network.hardware.nodes.network.router import ACLAction
    from primaite.utils.validation.ip_protocol import PROTOCOL_LOOKUP
    from primaite.utils.validation.port import PORT_LOOKUP
    router = nodes["router_1"]
    listed_ip, unlisted_ip = run.opts["ip_list"][0], "10.9.9.9"
    ip_list, wc_list = run.opts["ip_list"], run.opts["wildcard_list"]
    port_ids = {PORT_LOOKUP[n]: i + 2 for i, n in enumerate(run.opts["port_list"])}
    proto_ids = {PROTOCOL_LOOKUP[n]: i + 2 for i, n in enumerate(run.opts["protocol_list"])}
    port_pairs = ((None, None), (PORT_LOOKUP["HTTP"], PORT_LOOKUP["HTTP"]), (PORT_LOOKUP["HTTP"], PORT_LOOKUP["POSTGRES_SERVER"]),
                  (PORT_LOOKUP["SSH"], PORT_LOOKUP["HTTP"]), (None, PORT_LOOKUP["POSTGRES_SERVER"]))
    for pos in range(0, run.opts["num_rules"]):
        old = router.acl._acl[pos]
        for action in ACLAction:
            for sip, dip in itertools.product((None, listed_ip, unlisted_ip), repeat=2):
                for swc, dwc in ((None, None), (wc_list[0], "0.0.255.255"), ("0.0.255.255", wc_list[0])):
                    for sport, dport in port_pairs:
                        for proto in (None, PROTOCOL_LOOKUP["TCP"]):
                            case = "acl.unlisted_address" if unlisted_ip in (sip, dip) else "acl"
                            router.acl._acl[pos] = None
                            swc_, dwc_ = (swc if sip else None), (dwc if dip else None)
                            try:
                                router.acl.add_rule(action=action, protocol=proto, src_ip_address=sip, src_wildcard_mask=swc_,
                                                    dst_ip_address=dip, dst_wildcard_mask=dwc_, src_port=sport, dst_port=dport, position=pos)
                            except Exception as e:
                                run.fail(case, f"add_rule at {pos}", f"add_rule raised {type(e).__name__}: {e}")
                                continue

                            def truth(obs, pos=pos, action=action, sip=sip, dip=dip, swc_=swc_, dwc_=dwc_, sport=sport, dport=dport, proto=proto):
                                if unlisted_ip in (sip, dip):
                                    return None
                                want = {"position": pos, "permission": action.value,
                                        "source_ip_id": 1 if sip is None else ip_list.index(sip) + 2,
                                        "source_wildcard_id": 1 if swc_ not in wc_list else wc_list.index(swc_) + 2,
                                        "source_port_id": port_ids.get(sport, 1),
                                        "dest_ip_id": 1 if dip is None else ip_list.index(dip) + 2,
                                        "dest_wildcard_id": 1 if dwc_ not in wc_list else wc_list.index(dwc_) + 2,
                                        "dest_port_id": port_ids.get(dport, 1),
                                        "protocol_id": proto_ids.get(proto, 1)}
                                got = obs["NODES"]["ROUTER0"]["ACL"][pos]
                                return None if got == want else f"router_1 ACL slot {pos}: observed {got}, rule encodes as {want}"
                            run.observe(case, f"router_1 rule {pos}: {action.name} proto={proto} src={sip}/{swc_}:{sport} dst={dip}/{dwc_}:{dport}", truth)
        router.acl._acl[pos] = old

    # 7. user sessions
    for name in run.hosts:
        node = nodes[name]
        usm = node.software_manager.software.get("user-session-manager")
        if usm is None:
            continue
        from primaite.simulator.network.hardware.base import RemoteUserSession, User, UserSession
        u = User(username="u", password="p")
        for k in range(0, 6):
            sessions = {f"s{j}": RemoteUserSession.create(user=u, timestep=0, remote_ip_address="10.0.0.9") for j in range(k)}
            for local in (None, UserSession.create(user=u, timestep=0)):
                def truth(obs, name=name, k=k, local=local):
                    if not node_on(nodes[name]):
                        return None
                    leaf = run.host_obs(obs, name)["users"]
                    want = {"local_login": 1 if local else 0, "remote_sessions": min(3, k)}
                    return None if leaf == want else f"{name}: users leaf {leaf} != {want}"
                with setting((usm, "remote_sessions", sessions), (usm, "local_session", local)):
                    run.observe("users", f"{name}: {k} remote sessions, local={'yes' if local else 'no'}", truth)

    # 8. components that disappear: software uninstalled, file / folder deleted, node removed from the network
    for name in run.hosts:
        node = nodes[name]
        for sname in list(node.software_manager.software):
            sw = node.software_manager.software.pop(sname)
            run.observe("absent", f"{name}: {sname} not installed")
            node.software_manager.software[sname] = sw
        for folder in list(node.file_system.folders.values()):
            fid = folder.uuid
            del node.file_system.folders[fid]
            run.observe("absent", f"{name}: folder {folder.name} gone")
            node.file_system.folders[fid] = folder
    for uid in list(net.nodes):
        node = net.nodes.pop(uid)
        run.observe("absent", f"node {node.config.hostname} removed from the network")
        net.nodes[uid] = node


def firewall_sweep(cases_sink):
    """Second scenario (tests/assets/configs/firewall_actions_network.yaml with the firewall added to the observed nodes):
    a distinct rule is placed in each of the firewall's six ACLs in turn; every one of the six observed blocks must be a
    member of the space and must encode its OWN list."""
    import primaite
    from primaite.simulator.network.hardware.nodes.network.router import ACLAction
    from primaite.utils.validation.ip_protocol import PROTOCOL_LOOKUP
    from primaite.utils.validation.port import PORT_LOOKUP
    root = os.path.dirname(os.path.dirname(os.path.dirname(primaite.__file__)))
    path = os.path.join(root, "tests", "assets", "configs", "firewall_actions_network.yaml")
    if not os.path.exists(path):  # dev runs against a scratch copy of src/ only: the scenario file is the repository's
        path = "/repo/tests/assets/configs/firewall_actions_network.yaml"
    if not os.path.exists(path):
        cases_sink.setdefault("firewall", {"name": "firewall", "checked": 0, "counterexample": None})
        return
    cfg = yaml.safe_load(open(path))
    ag = [a for a in cfg["agents"] if a["type"] == "proxy-agent"][0]
    opts = ag["observation_space"]["options"]["components"][0]["options"]
    opts["firewalls"] = [{"hostname": "firewall"}]
    ag["reward_function"] = {"reward_components": [{"type": "dummy"}]}
    cfg["agents"] = [ag]
    game = PrimaiteGame.from_config(copy.deepcopy(cfg))
    om = game.agents[ag["ref"]].observation_manager
    space = om.space
    fw = game.simulation.network.get_node_by_hostname("firewall")
    blocks = {("INTERNAL", "INBOUND"): fw.internal_inbound_acl, ("INTERNAL", "OUTBOUND"): fw.internal_outbound_acl,
              ("DMZ", "INBOUND"): fw.dmz_inbound_acl, ("DMZ", "OUTBOUND"): fw.dmz_outbound_acl,
              ("EXTERNAL", "INBOUND"): fw.external_inbound_acl, ("EXTERNAL", "OUTBOUND"): fw.external_outbound_acl}
    port_ids = {PORT_LOOKUP[n]: i + 2 for i, n in enumerate(opts["port_list"])}
    proto_ids = {PROTOCOL_LOOKUP[n]: i + 2 for i, n in enumerate(opts["protocol_list"])}
    ip_list, wc_list = opts["ip_list"], opts["wildcard_list"]
    cs = cases_sink.setdefault("firewall", {"name": "firewall", "checked": 0, "counterexample": None})

    def encode(acl, pos):
        r = acl._acl[pos]
        if r is None:
            return {"position": pos, "permission": 0, "source_ip_id": 0, "source_wildcard_id": 0, "source_port_id": 0, "dest_ip_id": 0,
                    "dest_wildcard_id": 0, "dest_port_id": 0, "protocol_id": 0}
        ip = lambda a: 1 if a is None else ip_list.index(str(a)) + 2  # noqa: E731
        wc = lambda w: 1 if w is None or str(w) not in wc_list else wc_list.index(str(w)) + 2  # noqa: E731
        return {"position": pos, "permission": r.action.value, "source_ip_id": ip(r.src_ip_address), "source_wildcard_id": wc(r.src_wildcard_mask),
                "source_port_id": port_ids.get(r.src_port, 1), "dest_ip_id": ip(r.dst_ip_address), "dest_wildcard_id": wc(r.dst_wildcard_mask),
                "dest_port_id": port_ids.get(r.dst_port, 1), "protocol_id": proto_ids.get(r.protocol, 1)}
    variants = [dict(action=ACLAction.DENY, protocol=PROTOCOL_LOOKUP["TCP"], src_ip_address=ip_list[0], src_wildcard_mask=wc_list[0], dst_port=PORT_LOOKUP["HTTP"]),
                dict(action=ACLAction.PERMIT, protocol=PROTOCOL_LOOKUP["UDP"], dst_ip_address=ip_list[0], src_port=PORT_LOOKUP["POSTGRES_SERVER"]),
                dict(action=ACLAction.DENY, protocol=PROTOCOL_LOOKUP["ICMP"])]
    for (zone, direction), acl in blocks.items():
        for pos in (1, 2, 5):
            for kw in variants:
                old = acl._acl[pos]
                acl._acl[pos] = None
                acl.add_rule(position=pos, **kw)
                cs["checked"] += 1
                bad = None
                try:
                    obs = om.update(game.get_sim_state())
                    if MODE == "member":
                        if not space.contains(obs):
                            bad = "observation not in the declared space"
                    else:
                        for (z2, d2), a2 in blocks.items():
                            for q in range(opts["num_rules"]):
                                got = obs["NODES"]["FIREWALL0"]["ACL"][z2][d2][q]
                                if got != encode(a2, q) and bad is None:
                                    bad = f"firewall ACL {z2}/{d2} slot {q}: observed {got}, the list holds {encode(a2, q)}"
                except Exception as e:
                    bad = f"observation raised {type(e).__name__}: {e}"
                if bad and cs["counterexample"] is None:
                    cs["counterexample"] = {"what": f"rule {kw['action'].name}/{kw.get('protocol')} at {zone}/{direction} position {pos}", "detail": bad}
                acl._acl[pos] = old


def node_on(node):
    return node.operating_state.name == "ON"


MODE = "member"


def main(mode):
    global MODE
    MODE = mode
    run = Run()
    try:
        sweep(run)
        firewall_sweep(run.cases)
    except Exception as e:  # the driver itself failed: report as an error, not as a counterexample
        import traceback
        print(json.dumps({"checked": 0, "counterexample": None, "error": f"driver error: {type(e).__name__}: {e}\n{traceback.format_exc(limit=4)}"}))
        return 3
    cases = list(run.cases.values())
    print(json.dumps({"checked": sum(c["checked"] for c in cases), "cases": cases}))
    return 1 if any(c["counterexample"] for c in cases) else 0
