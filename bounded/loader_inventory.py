"""C20 bounded stand-in (NOT a proof): the object graph built by PrimaiteGame.from_config against an inventory derived
independently from the scenario dictionary, over a generated family of small scenarios.

Family: one base scenario (switch, computer, server, router, three links) and single-point variations of it -- addressing,
power state and durations, extra interfaces (numbered in and out of order), users, software with options, folders/files,
router ports / ACL rules at positions / routes / default route, link bandwidths, scenario-wide defaults -- plus, for
every member, a re-serialisation with the keys of every mapping in reverse order (must build the same inventory).
Bound: 1 node of each kind, <= 3 entries per list/mapping, the values written below.
"""
import copy
import json
import sys
import warnings

warnings.filterwarnings("ignore")
from primaite.game.game import PrimaiteGame  # noqa: E402

BASE = {
    "game": {"max_episode_length": 16, "ports": ["HTTP", "DNS", "POSTGRES_SERVER"], "protocols": ["ICMP", "TCP", "UDP"]},
    "agents": [],
    "simulation": {"network": {"nodes": [
        {"type": "switch", "hostname": "sw", "num_ports": 4},
        {"type": "computer", "hostname": "pc", "ip_address": "10.0.0.2", "subnet_mask": "255.255.255.0", "default_gateway": "10.0.0.1",
         "dns_server": "10.0.0.3",
         "users": [{"username": "bob", "password": "pw", "is_admin": True}],
         "applications": [{"type": "web-browser", "options": {"target_url": "http://x.com/"}},
                          {"type": "database-client", "options": {"db_server_ip": "10.0.0.3", "server_password": "s3"}}],
         "services": [{"type": "dns-client"}, {"type": "ntp-client", "options": {"ntp_server_ip": "10.0.0.3"}}],
         "folders": [{"folder_name": "docs", "files": [{"file_name": "a.txt"}]}]},
        {"type": "server", "hostname": "srv", "ip_address": "10.0.0.3", "subnet_mask": "255.255.255.0", "default_gateway": "10.0.0.1",
         "start_up_duration": 5, "shut_down_duration": 2,
         "services": [{"type": "database-service", "options": {"backup_server_ip": "10.0.0.2", "db_password": "s3"}},
                      {"type": "dns-server", "options": {"domain_mapping": {"x.com": "10.0.0.3"}}}]},
        {"type": "router", "hostname": "rt", "num_ports": 3,
         "ports": {1: {"ip_address": "10.0.0.1", "subnet_mask": "255.255.255.0"}, 2: {"ip_address": "10.0.1.1", "subnet_mask": "255.255.255.0"}},
         "acl": {3: {"action": "PERMIT", "protocol": "ICMP"},
                 1: {"action": "DENY", "src_ip": "10.0.0.2", "src_wildcard_mask": "0.0.0.0", "dst_port": "HTTP", "protocol": "TCP"}},
         "routes": [{"address": "10.0.9.0", "subnet_mask": "255.255.255.0", "next_hop_ip_address": "10.0.1.2", "metric": 3}],
         "default_route": {"next_hop_ip_address": "10.0.1.9"}},
        {"type": "firewall", "hostname": "fw",
         "ports": {"external_port": {"ip_address": "10.0.1.2", "subnet_mask": "255.255.255.0"},
                   "internal_port": {"ip_address": "10.0.3.1", "subnet_mask": "255.255.255.0"},
                   "dmz_port": {"ip_address": "10.0.4.1", "subnet_mask": "255.255.255.0"}},
         "acl": {"internal_inbound_acl": {2: {"action": "DENY", "protocol": "UDP"}, 7: {"action": "PERMIT", "src_ip": "10.0.0.0", "src_wildcard_mask": "0.0.0.255"}},
                 "internal_outbound_acl": {}, "dmz_inbound_acl": {},  # (the loader requires the four internal/dmz lists to be present)
                 "dmz_outbound_acl": {4: {"action": "PERMIT", "dst_port": "DNS", "protocol": "UDP"}},
                 "external_inbound_acl": {1: {"action": "DENY", "dst_ip": "10.0.3.0", "dst_wildcard_mask": "0.0.0.63"}}},
         "routes": [{"address": "10.0.0.0", "subnet_mask": "255.255.255.0", "next_hop_ip_address": "10.0.1.1", "metric": 2},
                    {"address": "10.0.0.0", "subnet_mask": "255.255.255.0", "next_hop_ip_address": "10.0.1.7", "metric": 5}],
         "default_route": {"next_hop_ip_address": "10.0.1.1"}},
    ], "links": [
        {"endpoint_a_hostname": "sw", "endpoint_a_port": 1, "endpoint_b_hostname": "pc", "endpoint_b_port": 1, "bandwidth": 250},
        {"endpoint_a_hostname": "sw", "endpoint_a_port": 2, "endpoint_b_hostname": "srv", "endpoint_b_port": 1},
        {"endpoint_a_hostname": "sw", "endpoint_a_port": 3, "endpoint_b_hostname": "rt", "endpoint_b_port": 1},
        {"endpoint_a_hostname": "rt", "endpoint_a_port": 2, "endpoint_b_hostname": "fw", "endpoint_b_port": 1, "bandwidth": 40},
    ]}}}

PORTS = {"HTTP": 80, "DNS": 53, "POSTGRES_SERVER": 5432, "SSH": 22, "FTP": 21, "ARP": 219}


def node(cfg, name):
    return next(n for n in cfg["simulation"]["network"]["nodes"] if n["hostname"] == name)


def family():
    """(case name, description, scenario) -- every member differs from BASE in one declared item."""
    out = [("base", "base scenario", copy.deepcopy(BASE))]

    def vary(case, what, fn):
        c = copy.deepcopy(BASE)
        fn(c)
        out.append((case, what, c))
    for ip in ("10.0.0.7", "10.0.0.200"):
        vary("addressing", f"pc ip_address={ip}", lambda c, ip=ip: node(c, "pc").update(ip_address=ip))
    vary("addressing", "pc dns_server=10.0.0.9", lambda c: node(c, "pc").update(dns_server="10.0.0.9"))
    vary("addressing", "srv default_gateway=10.0.0.254", lambda c: node(c, "srv").update(default_gateway="10.0.0.254"))
    for state in ("ON", "OFF"):
        for su, sd in ((0, 0), (2, 7)):
            vary("power", f"srv operating_state={state} start_up={su} shut_down={sd}",
                 lambda c, state=state, su=su, sd=sd: node(c, "srv").update(operating_state=state, start_up_duration=su, shut_down_duration=sd))
    for dflt in ({"node_start_up_duration": 7}, {"node_shut_down_duration": 6}, {"node_start_up_duration": 4, "node_shut_down_duration": 1}):
        vary("defaults", f"defaults={dflt}", lambda c, dflt=dflt: c.update(defaults=dict(dflt)))
    nic = lambda k: {"ip_address": f"10.0.{k}.2", "subnet_mask": "255.255.255.0"}  # noqa: E731
    vary("interfaces", "pc network_interfaces {2}", lambda c: node(c, "pc").update(network_interfaces={2: nic(2)}))
    vary("interfaces", "pc network_interfaces {2, 3}", lambda c: node(c, "pc").update(network_interfaces={2: nic(2), 3: nic(3)}))
    vary("interfaces.numbering", "pc network_interfaces written {3, 2}", lambda c: node(c, "pc").update(network_interfaces={3: nic(3), 2: nic(2)}))
    vary("interfaces.numbering", "pc network_interfaces {3} only", lambda c: node(c, "pc").update(network_interfaces={3: nic(3)}))
    vary("users", "pc users bob(non-admin), eve", lambda c: node(c, "pc").update(users=[{"username": "bob", "password": "pw", "is_admin": False},
                                                                                       {"username": "eve", "password": "x", "is_admin": True}]))
    vary("users", "srv users carol", lambda c: node(c, "srv").update(users=[{"username": "carol", "password": "c1", "is_admin": False}]))
    vary("software", "pc web-browser target_url=http://y.org/", lambda c: node(c, "pc")["applications"][0]["options"].update(target_url="http://y.org/"))
    vary("software", "pc database-client password=zz", lambda c: node(c, "pc")["applications"][1]["options"].update(server_password="zz"))
    vary("software", "srv database-service db_password=zz", lambda c: node(c, "srv")["services"][0]["options"].update(db_password="zz"))
    vary("software", "srv dns-server mapping a.b -> 10.0.0.2", lambda c: node(c, "srv")["services"][1]["options"].update(domain_mapping={"a.b": "10.0.0.2", "x.com": "10.0.0.3"}))
    vary("software", "pc ntp-client server 10.0.0.9", lambda c: node(c, "pc")["services"][1]["options"].update(ntp_server_ip="10.0.0.9"))
    vary("software", "pc extra ftp-server + web-server", lambda c: node(c, "pc")["services"].extend([{"type": "ftp-server"}, {"type": "web-server"}]))
    vary("files", "pc folders docs{a.txt,b.txt}, tmp{}", lambda c: node(c, "pc").update(folders=[{"folder_name": "docs", "files": [{"file_name": "a.txt"}, {"file_name": "b.txt"}]},
                                                                                              {"folder_name": "tmp"}]))
    vary("router", "rt port 3 configured", lambda c: node(c, "rt")["ports"].update({3: {"ip_address": "10.0.2.1", "subnet_mask": "255.255.255.0"}}))
    for pos in (0, 5, 20):
        vary("router.acl", f"rt extra DENY rule at {pos}", lambda c, pos=pos: node(c, "rt")["acl"].update({pos: {"action": "DENY", "dst_ip": "10.0.0.3", "dst_wildcard_mask": "0.0.0.255", "src_port": "DNS", "protocol": "UDP"}}))
    vary("router", "rt two routes", lambda c: node(c, "rt")["routes"].append({"address": "10.0.8.0", "subnet_mask": "255.255.255.0", "next_hop_ip_address": "10.0.1.3"}))
    vary("router", "rt no default route", lambda c: node(c, "rt").pop("default_route"))
    vary("software", "pc dns-client with its own dns_server 10.0.0.53", lambda c: node(c, "pc")["services"][0].update(options={"dns_server": "10.0.0.53"}))
    vary("firewall", "fw route metrics swapped", lambda c: (node(c, "fw")["routes"][0].update(metric=9), node(c, "fw")["routes"][1].update(metric=1)))
    vary("firewall", "fw extra rule in dmz_inbound_acl at 3", lambda c: node(c, "fw")["acl"].update(dmz_inbound_acl={3: {"action": "DENY", "src_port": "HTTP", "protocol": "TCP"}}))
    vary("firewall", "fw dmz port address 10.0.4.9", lambda c: node(c, "fw")["ports"]["dmz_port"].update(ip_address="10.0.4.9"))
    vary("firewall", "fw no default route", lambda c: node(c, "fw").pop("default_route"))
    for bw in (1, 100, 1000):
        vary("links", f"link sw:2-srv:1 bandwidth={bw}", lambda c, bw=bw: c["simulation"]["network"]["links"][1].update(bandwidth=bw))
    return out


def reverse_keys(x):
    if isinstance(x, dict):
        return {k: reverse_keys(x[k]) for k in reversed(list(x.keys()))}
    if isinstance(x, list):
        return [reverse_keys(v) for v in x]
    return x


def expected(cfg):
    """Inventory the scenario dictionary declares (only the items this check compares)."""
    inv = {}
    dflt = cfg.get("defaults", {})
    for n in cfg["simulation"]["network"]["nodes"]:
        e = {"type": n["type"], "state": n.get("operating_state", "ON").upper(),
             "start_up": n.get("start_up_duration", dflt.get("node_start_up_duration", 3)),
             "shut_down": n.get("shut_down_duration", dflt.get("node_shut_down_duration", 3))}
        if n["type"] in ("computer", "server"):
            nics = {1: (n["ip_address"], n["subnet_mask"])}
            for k, v in n.get("network_interfaces", {}).items():
                nics[int(k)] = (v["ip_address"], v["subnet_mask"])
            e["interfaces"] = nics
            e["default_gateway"] = n.get("default_gateway")
            e["dns_server"] = n.get("dns_server")
            e["users"] = {u["username"]: (u["password"], bool(u.get("is_admin", False))) for u in n.get("users", [])}
            e["folders"] = {f["folder_name"]: sorted(x["file_name"] for x in f.get("files", [])) for f in n.get("folders", [])}
            e["software"] = {}
            for s in n.get("services", []) + n.get("applications", []):
                e["software"][s["type"]] = {k: str(v) if not isinstance(v, dict) else {a: str(b) for a, b in v.items()} for k, v in s.get("options", {}).items()}
        if n["type"] == "router":
            e["interfaces"] = {int(k): (v["ip_address"], v.get("subnet_mask", "255.255.255.0")) for k, v in n.get("ports", {}).items()}
            e["acl"] = {int(k): (r["action"], r.get("src_ip"), r.get("dst_ip"), PORTS.get(r.get("src_port")), PORTS.get(r.get("dst_port")),
                                 (r.get("protocol") or "").lower() or None, r.get("src_wildcard_mask"), r.get("dst_wildcard_mask")) for k, r in n.get("acl", {}).items()}
            e["routes"] = sorted((r["address"], r.get("subnet_mask", "255.255.255.0"), r["next_hop_ip_address"], float(r.get("metric", 0))) for r in n.get("routes", []))
            e["default_route"] = (n.get("default_route") or {}).get("next_hop_ip_address")
        if n["type"] == "firewall":
            order = {"external_port": 1, "internal_port": 2, "dmz_port": 3}
            e["interfaces"] = {order[k]: (v["ip_address"], v.get("subnet_mask", "255.255.255.0")) for k, v in n.get("ports", {}).items()}
            e["acls"] = {nm: {int(k): (r["action"], r.get("src_ip"), r.get("dst_ip"), PORTS.get(r.get("src_port")), PORTS.get(r.get("dst_port")),
                                       (r.get("protocol") or "").lower() or None, r.get("src_wildcard_mask"), r.get("dst_wildcard_mask")) for k, r in rules.items()} for nm, rules in n.get("acl", {}).items()}
            e["routes"] = sorted((r["address"], r.get("subnet_mask", "255.255.255.0"), r["next_hop_ip_address"], float(r.get("metric", 0))) for r in n.get("routes", []))
            e["default_route"] = (n.get("default_route") or {}).get("next_hop_ip_address")
        inv[n["hostname"]] = e
    inv["$links"] = sorted((l["endpoint_a_hostname"], l["endpoint_a_port"], l["endpoint_b_hostname"], l["endpoint_b_port"], float(l.get("bandwidth", 100)))
                           for l in cfg["simulation"]["network"]["links"])
    return inv


def built(game, cfg):
    """The same inventory read off the object graph."""
    inv = {}
    net = game.simulation.network
    exp = expected(cfg)
    for nd in net.nodes.values():
        name = nd.config.hostname
        want = exp[name]
        e = {"type": want["type"] if type(nd).__name__.lower() == want["type"] else type(nd).__name__.lower(), "state": nd.operating_state.name,
             "start_up": nd.config.start_up_duration, "shut_down": nd.config.shut_down_duration}
        if want["type"] in ("computer", "server"):
            e["interfaces"] = {k: (str(v.ip_address), str(v.subnet_mask)) for k, v in nd.network_interface.items()}
            e["default_gateway"] = None if nd.config.default_gateway is None else str(nd.config.default_gateway)
            e["dns_server"] = None if nd.config.dns_server is None else str(nd.config.dns_server)
            um = nd.software_manager.software["user-manager"]
            e["users"] = {k: (u.password, u.is_admin) for k, u in um.users.items() if k != "admin"}
            e["folders"] = {f.name: sorted(x.name for x in f.files.values()) for f in nd.file_system.folders.values() if f.name in want["folders"]}
            e["software"] = {}
            for t, opts in want["software"].items():
                sw = nd.software_manager.software.get(t)
                if sw is None:
                    e["software"][t] = "<not installed>"
                    continue
                got = {}
                for k in opts:
                    v = getattr(sw.config, k, None) if hasattr(sw, "config") else None
                    if k == "domain_mapping":
                        v = {a: str(b) for a, b in sw.dns_table.items()}
                    if k == "dns_server" and v is None:
                        v = getattr(sw, "dns_server", None)
                    got[k] = v if isinstance(v, dict) else str(v)
                e["software"][t] = got
        if want["type"] == "router":
            e["interfaces"] = {k: (str(v.ip_address), str(v.subnet_mask)) for k, v in nd.network_interface.items() if k in want["interfaces"]}
            e["acl"] = {i: (r.action.name, None if r.src_ip_address is None else str(r.src_ip_address), None if r.dst_ip_address is None else str(r.dst_ip_address),
                            r.src_port, r.dst_port, r.protocol, None if r.src_wildcard_mask is None else str(r.src_wildcard_mask),
                            None if r.dst_wildcard_mask is None else str(r.dst_wildcard_mask)) for i, r in enumerate(nd.acl._acl) if r is not None and i in want["acl"]}
            e["acl_extra_positions"] = sorted(i for i, r in enumerate(nd.acl._acl) if r is not None and i not in want["acl"] and i < 21)
            e["routes"] = sorted((str(r.address), str(r.subnet_mask), str(r.next_hop_ip_address), float(r.metric)) for r in nd.route_table.routes)
            dr = nd.route_table.default_route
            e["default_route"] = None if dr is None else str(dr.next_hop_ip_address)
        if want["type"] == "firewall":
            e["interfaces"] = {k: (str(v.ip_address), str(v.subnet_mask)) for k, v in nd.network_interface.items() if k in want["interfaces"]}
            e["acls"] = {}
            for nm, rules in want["acls"].items():
                acl = getattr(nd, nm)
                e["acls"][nm] = {i: (r.action.name, None if r.src_ip_address is None else str(r.src_ip_address), None if r.dst_ip_address is None else str(r.dst_ip_address),
                                     r.src_port, r.dst_port, r.protocol, None if r.src_wildcard_mask is None else str(r.src_wildcard_mask),
                                     None if r.dst_wildcard_mask is None else str(r.dst_wildcard_mask)) for i, r in enumerate(acl._acl) if r is not None and i in rules}
                extra = sorted(i for i, r in enumerate(acl._acl) if r is not None and i not in rules and i < 21)
                if extra:
                    e["acls"][nm]["$undeclared"] = extra
            e["routes"] = sorted((str(r.address), str(r.subnet_mask), str(r.next_hop_ip_address), float(r.metric)) for r in nd.route_table.routes)
            dr = nd.route_table.default_route
            e["default_route"] = None if dr is None else str(dr.next_hop_ip_address)
        inv[name] = e
    inv["$links"] = sorted((l.endpoint_a.parent.config.hostname, l.endpoint_a.port_num, l.endpoint_b.parent.config.hostname, l.endpoint_b.port_num, float(l.bandwidth))
                           for l in net.links.values())
    return inv


def diff(a, b, path=""):
    if isinstance(a, dict) and isinstance(b, dict):
        for k in sorted(set(a) | set(b), key=str):
            if k == "acl_extra_positions":
                if b.get(k):
                    return f"{path}/acl: rules at undeclared positions {b[k]}"
                continue
            if k not in a:
                return f"{path}/{k}: built but not declared: {b[k]!r}"
            if k not in b:
                return f"{path}/{k}: declared {a[k]!r} but not built"
            d = diff(a[k], b[k], f"{path}/{k}")
            if d:
                return d
        return None
    return None if a == b else f"{path}: declared {a!r}, built {b!r}"


def main():
    cases = {}
    for case, what, cfg in family():
        for variant, c in (("as written", cfg), ("mapping keys reversed", reverse_keys(cfg))):
            cs = cases.setdefault(case, {"name": case, "checked": 0, "counterexample": None})
            cs["checked"] += 1
            try:
                game = PrimaiteGame.from_config(copy.deepcopy(c))
                d = diff(expected(cfg), built(game, cfg))
            except Exception as e:
                d = f"from_config raised {type(e).__name__}: {e}"
            if d and "/interfaces/" in d and not d.startswith("from_config raised"):
                # known finding F18 is confined to "the declared addresses are all there, but under other numbers"; any
                # other interface discrepancy stays in the case it was found in
                try:
                    e_, b_ = expected(cfg), built(game, cfg)
                    host = d.split("/")[1]
                    if sorted(e_[host]["interfaces"].values()) == sorted(b_[host]["interfaces"].values()):
                        cs = cases.setdefault("interfaces.numbering", {"name": "interfaces.numbering", "checked": 0, "counterexample": None})
                        cs["checked"] = max(cs["checked"], 1)
                except Exception:
                    pass
            if d and cs["counterexample"] is None:
                cs["counterexample"] = {"what": f"{what} ({variant})", "detail": d}
    print(json.dumps({"checked": sum(c["checked"] for c in cases.values()), "cases": list(cases.values())}))
    return 1 if any(c["counterexample"] for c in cases.values()) else 0


if __name__ == "__main__":
    sys.exit(main())
