"""Bounded stand-in (never counted as proved) for primaite.game.science.graph_has_cycle / topological_sort:
exhaustive over every directed graph on at most 4 named agents (self-loops included, every declaration order),
run on the real functions.  Spec (C10): cyclic sharing is rejected, every acyclic graph is accepted and its order lists
each agent exactly once with every agent *after* the agents whose reward it shares."""
import itertools
import json
import sys

from primaite.game.science import graph_has_cycle, topological_sort


def has_cycle_ref(nodes, edges):
    adj = {n: [b for (a, b) in edges if a == n] for n in nodes}
    color = {}

    def dfs(u):
        color[u] = 1
        for v in adj[u]:
            if color.get(v) == 1 or (v not in color and dfs(v)):
                return True
        color[u] = 2
        return False
    return any(n not in color and dfs(n) for n in nodes)


def main(max_nodes=4):
    checked = 0
    names = ["a", "b", "c", "d"]
    for n in range(1, max_nodes + 1):
        nodes = names[:n]
        pairs = [(x, y) for x in nodes for y in nodes]
        for mask in range(2 ** len(pairs)):
            edges = [p for i, p in enumerate(pairs) if mask >> i & 1]
            cyc = has_cycle_ref(nodes, edges)
            for order in itertools.permutations(nodes):
                graph = {x: {b for (a, b) in edges if a == x} for x in order}  # x shares the reward of every b
                checked += 1
                got = graph_has_cycle(graph)
                if got != cyc:
                    return checked, {"graph": {k: sorted(v) for k, v in graph.items()}, "order": list(order),
                                     "what": f"graph_has_cycle returned {got}, a cycle {'exists' if cyc else 'does not exist'}"}
                if not cyc:
                    res = list(topological_sort(graph))
                    ok = sorted(res) == sorted(nodes) and all(res.index(b) < res.index(a) for (a, b) in edges)
                    if not ok:
                        return checked, {"graph": {k: sorted(v) for k, v in graph.items()}, "order": list(order),
                                         "what": f"topological_sort returned {res}: not every dependency comes first / not a permutation"}
    return checked, None


if __name__ == "__main__":
    n, bad = main()
    print(json.dumps({"checked": n, "counterexample": bad}))
    sys.exit(1 if bad else 0)
